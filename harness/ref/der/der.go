// Package der is a small, self-contained TLV tree for BER/DER: parse (strict
// DER or tolerant definite-length BER), edit, re-encode with correct lengths.
// It does not use encoding/asn1 nor cryptobyte.
package der

import (
	"bytes"
	"fmt"
)

const (
	ClassUniversal = 0
	ClassContext   = 2
)

// universal tags
const (
	TagBoolean     = 1
	TagInteger     = 2
	TagBitString   = 3
	TagOctetString = 4
	TagNull        = 5
	TagOID         = 6
	TagUTF8String  = 12
	TagSequence    = 16
	TagSet         = 17
	TagPrintable   = 19
	TagUTCTime     = 23
	TagGeneralized = 24
)

// Node is one TLV element.
type Node struct {
	Class       int
	Constructed bool
	Tag         uint32
	Content     []byte  // value octets of a primitive element (or of a constructed one kept opaque)
	Children    []*Node // elements of a constructed element (when parsed recursively)
	Opaque      bool    // constructed, but Content is authoritative (children not parsed / not to be re-encoded)
	Trailing    []byte  // bytes after the last parsable child of a constructed element (tolerant parse only)
	Raw         []byte  // the original encoding (header + content) when the node came from Parse
	hdr         int     // length of the identifier and length octets within Raw
}

// RawValue returns the value octets exactly as they appeared in the parsed
// input (for nodes that came from Parse and were not cloned), else Value().
func (n *Node) RawValue() []byte {
	if n.Raw != nil {
		return n.Raw[n.hdr:]
	}
	return n.Value()
}

// RawBytes returns the element exactly as it appeared in the parsed input, else its re-encoding.
func (n *Node) RawBytes() []byte {
	if n.Raw != nil {
		return n.Raw
	}
	return n.Encode()
}

// Is reports class/tag/constructed.
func (n *Node) Is(class int, tag uint32) bool { return n != nil && n.Class == class && n.Tag == tag }

// IsSeq etc.
func (n *Node) IsSeq() bool { return n.Is(ClassUniversal, TagSequence) && n.Constructed }
func (n *Node) IsSet() bool { return n.Is(ClassUniversal, TagSet) && n.Constructed }

// Ctx reports a context-specific tag.
func (n *Node) Ctx(tag uint32) bool { return n.Is(ClassContext, tag) }

// Value returns the value octets (for a constructed node the concatenated encodings of its children).
func (n *Node) Value() []byte {
	if !n.Constructed || n.Opaque || n.Children == nil && n.Content != nil {
		return n.Content
	}
	var b []byte
	for _, c := range n.Children {
		b = append(b, c.Encode()...)
	}
	return append(b, n.Trailing...)
}

// EncodeLen is the minimal DER length encoding.
func EncodeLen(n int) []byte {
	if n < 0x80 {
		return []byte{byte(n)}
	}
	var b []byte
	for v := n; v > 0; v >>= 8 {
		b = append([]byte{byte(v)}, b...)
	}
	return append([]byte{0x80 | byte(len(b))}, b...)
}

func encodeIdent(class int, constructed bool, tag uint32) []byte {
	b := byte(class << 6)
	if constructed {
		b |= 0x20
	}
	if tag < 31 {
		return []byte{b | byte(tag)}
	}
	out := []byte{b | 31}
	var stack []byte
	for v := tag; ; v >>= 7 {
		stack = append([]byte{byte(v & 0x7f)}, stack...)
		if v>>7 == 0 {
			break
		}
	}
	for i := range stack {
		if i != len(stack)-1 {
			stack[i] |= 0x80
		}
	}
	return append(out, stack...)
}

// Encode re-encodes the node with DER lengths.
func (n *Node) Encode() []byte {
	v := n.Value()
	out := encodeIdent(n.Class, n.Constructed, n.Tag)
	out = append(out, EncodeLen(len(v))...)
	return append(out, v...)
}

// Clone deep-copies a node (Raw is dropped).
func (n *Node) Clone() *Node {
	if n == nil {
		return nil
	}
	c := &Node{Class: n.Class, Constructed: n.Constructed, Tag: n.Tag, Opaque: n.Opaque}
	if n.Trailing != nil {
		c.Trailing = append([]byte{}, n.Trailing...)
	}
	if n.Content != nil {
		c.Content = append([]byte{}, n.Content...)
	}
	for _, ch := range n.Children {
		c.Children = append(c.Children, ch.Clone())
	}
	if n.Children != nil && c.Children == nil {
		c.Children = []*Node{}
	}
	return c
}

// Options of the parser.
type Options struct {
	Strict   bool // DER: minimal length octets, no trailing bytes inside constructed elements beyond children
	MaxDepth int
}

// Parse reads one element from the front of b and returns the rest.
func Parse(b []byte, o Options) (*Node, []byte, error) {
	if o.MaxDepth == 0 {
		o.MaxDepth = 64
	}
	return parse(b, o, 0)
}

func parse(b []byte, o Options, depth int) (*Node, []byte, error) {
	if depth > o.MaxDepth {
		return nil, nil, fmt.Errorf("nesting deeper than %d", o.MaxDepth)
	}
	if len(b) < 2 {
		return nil, nil, fmt.Errorf("truncated element header")
	}
	n := &Node{Class: int(b[0] >> 6), Constructed: b[0]&0x20 != 0, Tag: uint32(b[0] & 0x1f)}
	i := 1
	if n.Tag == 31 {
		n.Tag = 0
		for {
			if i >= len(b) {
				return nil, nil, fmt.Errorf("truncated high tag")
			}
			if n.Tag > 1<<24 {
				return nil, nil, fmt.Errorf("tag too large")
			}
			n.Tag = n.Tag<<7 | uint32(b[i]&0x7f)
			i++
			if b[i-1]&0x80 == 0 {
				break
			}
		}
		if o.Strict && n.Tag < 31 {
			return nil, nil, fmt.Errorf("non-minimal tag")
		}
	}
	if i >= len(b) {
		return nil, nil, fmt.Errorf("truncated length")
	}
	l := int(b[i])
	i++
	if l == 0x80 {
		return nil, nil, fmt.Errorf("indefinite length")
	}
	if l > 0x80 {
		k := l & 0x7f
		if k > 4 || i+k > len(b) {
			return nil, nil, fmt.Errorf("bad length of length %d", k)
		}
		l = 0
		for j := 0; j < k; j++ {
			l = l<<8 | int(b[i+j])
		}
		if o.Strict && (b[i] == 0 || l < 0x80) {
			return nil, nil, fmt.Errorf("non-minimal length")
		}
		i += k
	}
	if l < 0 || i+l > len(b) {
		return nil, nil, fmt.Errorf("length %d exceeds the %d bytes present", l, len(b)-i)
	}
	n.Raw = b[:i+l]
	n.hdr = i
	content := b[i : i+l]
	if n.Constructed {
		n.Children = []*Node{}
		rest := content
		for len(rest) > 0 {
			c, r, err := parse(rest, o, depth+1)
			if err != nil {
				if o.Strict {
					return nil, nil, err
				}
				// tolerant: keep the children that did parse, the rest is carried along as trailing bytes
				n.Trailing = rest
				return n, b[i+l:], nil
			}
			n.Children = append(n.Children, c)
			rest = r
		}
	} else {
		n.Content = content
	}
	return n, b[i+l:], nil
}

// ParseOne parses exactly one element; trailing bytes are an error.
func ParseOne(b []byte, o Options) (*Node, error) {
	n, rest, err := Parse(b, o)
	if err != nil {
		return nil, err
	}
	if len(rest) != 0 {
		return nil, fmt.Errorf("%d trailing bytes after the element", len(rest))
	}
	return n, nil
}

// ---- constructors

func Seq(children ...*Node) *Node {
	return &Node{Class: ClassUniversal, Constructed: true, Tag: TagSequence, Children: nn(children)}
}
func Set(children ...*Node) *Node {
	return &Node{Class: ClassUniversal, Constructed: true, Tag: TagSet, Children: nn(children)}
}
func CtxC(tag uint32, children ...*Node) *Node {
	return &Node{Class: ClassContext, Constructed: true, Tag: tag, Children: nn(children)}
}
func Prim(tag uint32, content []byte) *Node {
	return &Node{Class: ClassUniversal, Tag: tag, Content: append([]byte{}, content...)}
}
func Null() *Node           { return Prim(TagNull, nil) }
func Octets(b []byte) *Node { return Prim(TagOctetString, b) }

func nn(c []*Node) []*Node {
	if c == nil {
		return []*Node{}
	}
	return c
}

// OID encodes an object identifier.
func OID(arcs ...uint64) *Node {
	var b []byte
	add := func(v uint64) {
		var s []byte
		for {
			s = append([]byte{byte(v & 0x7f)}, s...)
			v >>= 7
			if v == 0 {
				break
			}
		}
		for i := range s {
			if i != len(s)-1 {
				s[i] |= 0x80
			}
		}
		b = append(b, s...)
	}
	if len(arcs) >= 2 {
		add(arcs[0]*40 + arcs[1])
		for _, a := range arcs[2:] {
			add(a)
		}
	}
	return Prim(TagOID, b)
}

// OIDArcs decodes an object identifier's content octets.
func OIDArcs(content []byte) ([]uint64, error) {
	if len(content) == 0 {
		return nil, fmt.Errorf("empty OID")
	}
	var arcs []uint64
	var v uint64
	for i, c := range content {
		if v > 1<<56 {
			return nil, fmt.Errorf("OID arc overflow")
		}
		v = v<<7 | uint64(c&0x7f)
		if c&0x80 == 0 {
			if len(arcs) == 0 {
				switch {
				case v < 40:
					arcs = append(arcs, 0, v)
				case v < 80:
					arcs = append(arcs, 1, v-40)
				default:
					arcs = append(arcs, 2, v-80)
				}
			} else {
				arcs = append(arcs, v)
			}
			v = 0
		} else if i == len(content)-1 {
			return nil, fmt.Errorf("truncated OID arc")
		}
	}
	return arcs, nil
}

// EqualOID compares an OID node's content with the arcs.
func EqualOID(n *Node, arcs ...uint64) bool {
	return n != nil && n.Is(ClassUniversal, TagOID) && !n.Constructed && bytes.Equal(n.Content, OID(arcs...).Content)
}

// Int encodes a non-negative integer given as big-endian magnitude bytes.
func Int(mag []byte) *Node {
	for len(mag) > 1 && mag[0] == 0 {
		mag = mag[1:]
	}
	if len(mag) == 0 {
		mag = []byte{0}
	}
	if mag[0]&0x80 != 0 {
		mag = append([]byte{0}, mag...)
	}
	return Prim(TagInteger, mag)
}

// SmallInt encodes 0..127.
func SmallInt(v byte) *Node { return Prim(TagInteger, []byte{v}) }
