// Package acode is the reference view of an Authenticode-signed image: the
// attribute certificate table, the digest inside SpcIndirectDataContent and
// the firmware-style verification predicate. Independent of the library.
package acode

import (
	"bytes"
	"crypto/x509"
	"encoding/binary"
	"fmt"

	"verifharness/ref/cms"
	"verifharness/ref/der"
	"verifharness/ref/pehash"
)

// Entry is one WIN_CERTIFICATE of the table.
type Entry struct {
	Offset   int
	Length   uint32
	Revision uint16
	Type     uint16
	Blob     []byte
	Padding  []byte
}

// ReadTable splits a table into entries; every entry is padded to 8 bytes.
// An error is returned when the bytes do not split exactly.
func ReadTable(table []byte) ([]Entry, error) {
	var out []Entry
	off := 0
	for off < len(table) {
		if len(table)-off < 8 {
			return out, fmt.Errorf("%d stray bytes at table offset %d", len(table)-off, off)
		}
		l := binary.LittleEndian.Uint32(table[off:])
		if l < 8 || uint64(off)+uint64(l) > uint64(len(table)) {
			return out, fmt.Errorf("entry at table offset %d: dwLength %d does not fit the %d remaining bytes", off, l, len(table)-off)
		}
		end := off + (int(l)+7)&^7
		if end > len(table) {
			return out, fmt.Errorf("entry at table offset %d: padding to 8 bytes exceeds the table", off)
		}
		out = append(out, Entry{Offset: off, Length: l, Revision: binary.LittleEndian.Uint16(table[off+4:]), Type: binary.LittleEndian.Uint16(table[off+6:]),
			Blob: table[off+8 : off+int(l)], Padding: table[off+int(l) : end]})
		off = end
	}
	return out, nil
}

// BuildTable encodes revision 2.0 PKCS#7 entries, each padded to 8 bytes.
func BuildTable(blobs [][]byte) []byte {
	var t []byte
	for _, b := range blobs {
		t = binary.LittleEndian.AppendUint32(t, uint32(8+len(b)))
		t = binary.LittleEndian.AppendUint16(t, 0x0200)
		t = binary.LittleEndian.AppendUint16(t, 0x0002)
		t = append(t, b...)
		for len(t)%8 != 0 {
			t = append(t, 0)
		}
	}
	return t
}

// Content returns the image without its certificate table.
func Content(img []byte) ([]byte, *pehash.Layout, error) {
	l, err := pehash.Parse(img)
	if err != nil {
		return nil, nil, err
	}
	if l.CertSize == 0 {
		return img, l, nil
	}
	if uint64(l.CertVA)+uint64(l.CertSize) != uint64(len(img)) {
		return nil, nil, fmt.Errorf("certificate table does not end at end of file")
	}
	return img[:l.CertVA], l, nil
}

// WithTable returns the image content (zero-padded to 8 bytes) followed by the
// table, with the directory entry pointing at it.
func WithTable(img []byte, table []byte) ([]byte, error) {
	content, l, err := Content(img)
	if err != nil {
		return nil, err
	}
	out := append([]byte{}, content...)
	for len(out)%8 != 0 {
		out = append(out, 0)
	}
	va := len(out)
	out = append(out, table...)
	if len(table) == 0 {
		va = 0
	}
	binary.LittleEndian.PutUint32(out[l.DD4Off:], uint32(va))
	binary.LittleEndian.PutUint32(out[l.DD4Off+4:], uint32(len(table)))
	return out, nil
}

// Table returns the entries of a signed image.
func Table(img []byte) ([]Entry, *pehash.Layout, error) {
	l, err := pehash.Parse(img)
	if err != nil {
		return nil, nil, err
	}
	if l.CertSize == 0 {
		return nil, l, nil
	}
	if uint64(l.CertVA)+uint64(l.CertSize) > uint64(len(img)) {
		return nil, l, fmt.Errorf("certificate table outside the file")
	}
	es, err := ReadTable(img[l.CertVA : uint64(l.CertVA)+uint64(l.CertSize)])
	return es, l, err
}

// SpcDigest extracts the digest of the SpcIndirectDataContent a blob encapsulates:
// SEQUENCE { data SEQUENCE{...}, messageDigest SEQUENCE { AlgorithmIdentifier, OCTET STRING } }.
func SpcDigest(blob []byte) ([]byte, error) {
	sd, err := cms.Parse(blob)
	if err != nil {
		return nil, err
	}
	return SpcDigestOf(sd)
}

// SpcDigestNode locates the digest OCTET STRING node (for editing).
func SpcDigestNode(sd *cms.SD) (*der.Node, error) {
	if !der.EqualOID(sd.EType, cms.OIDSpcIndirect...) {
		return nil, fmt.Errorf("content type is not SpcIndirectDataContent")
	}
	if sd.EContent0 == nil || len(sd.EContent0.Children) == 0 {
		return nil, fmt.Errorf("no encapsulated content")
	}
	spc := sd.EContent0.Children[0]
	if !spc.IsSeq() || len(spc.Children) < 2 || !spc.Children[1].IsSeq() || len(spc.Children[1].Children) < 2 {
		return nil, fmt.Errorf("malformed SpcIndirectDataContent")
	}
	d := spc.Children[1].Children[1]
	if !d.Is(der.ClassUniversal, der.TagOctetString) {
		return nil, fmt.Errorf("DigestInfo without digest")
	}
	return d, nil
}

// SpcDigestOf returns the digest bytes.
func SpcDigestOf(sd *cms.SD) ([]byte, error) {
	n, err := SpcDigestNode(sd)
	if err != nil {
		return nil, err
	}
	return n.RawValue(), nil
}

// VerifyImage is the reference predicate of C02/C03: some table entry is a
// SignedData that the C04 reference accepts for the certificate and whose
// SpcIndirectDataContent carries the specification digest of this image.
func VerifyImage(img []byte, cert *x509.Certificate) (bool, string) {
	es, l, err := Table(img)
	if err != nil && len(es) == 0 {
		return false, "no readable certificate table: " + err.Error()
	}
	if len(es) == 0 {
		return false, "no signatures"
	}
	h, err := l.Hash(img)
	if err != nil {
		return false, "image cannot be hashed: " + err.Error()
	}
	reason := ""
	for i, e := range es {
		sd, err := cms.Parse(e.Blob)
		if err != nil {
			reason += fmt.Sprintf("[entry %d unparsable] ", i)
			continue
		}
		v := sd.Accepts(cert)
		if !v.OK {
			reason += fmt.Sprintf("[entry %d: %s] ", i, v.Reason)
			continue
		}
		d, err := SpcDigestOf(sd)
		if err != nil {
			reason += fmt.Sprintf("[entry %d: %v] ", i, err)
			continue
		}
		if !bytes.Equal(d, h.Digest) {
			reason += fmt.Sprintf("[entry %d: embedded digest is not the digest of this image] ", i)
			continue
		}
		return true, fmt.Sprintf("entry %d", i)
	}
	return false, reason
}

// StripTable returns the image without its certificate table and with a zeroed directory entry.
func StripTable(img []byte) ([]byte, error) {
	content, l, err := Content(img)
	if err != nil {
		return nil, err
	}
	out := append([]byte{}, content...)
	binary.LittleEndian.PutUint32(out[l.DD4Off:], 0)
	binary.LittleEndian.PutUint32(out[l.DD4Off+4:], 0)
	return out, nil
}
