package acode

import (
	"crypto/rsa"
	"crypto/x509"

	"verifharness/ref/cms"
	"verifharness/ref/der"
	"verifharness/ref/pehash"
)

// SignOpts varies the shape of a reference-made Authenticode signature within
// what other producers (sbsign, osslsigncode, signtool) are known to emit.
type SignOpts struct {
	SigningTime     []byte // UTCTime text; nil = no signingTime attribute
	NoCerts         bool   // leave the certificates field out
	ObsoleteBMP     bool   // "<<<Obsolete>>>" as BMPString instead of the empty form
	SigAlgSHA256RSA bool   // sha256WithRSAEncryption instead of rsaEncryption in the SignerInfo
}

// Sign is a producer of Authenticode signatures that shares nothing with the
// library: the specification digest of the image goes into a
// SpcIndirectDataContent, which is signed as CMS SignedData and appended to
// the certificate table (behind any entries already there).
func Sign(img []byte, key *rsa.PrivateKey, cert *x509.Certificate, o SignOpts) ([]byte, error) {
	// the digest is that of the image as it will be stored: content padded to 8 bytes
	var blobs [][]byte
	if es, _, err := Table(img); err == nil {
		for _, e := range es {
			blobs = append(blobs, e.Blob)
		}
	}
	padded, err := WithTable(img, BuildTable(blobs))
	if err != nil {
		return nil, err
	}
	h, err := pehash.Hash(padded)
	if err != nil {
		return nil, err
	}
	var link *der.Node
	if o.ObsoleteBMP {
		s := "<<<Obsolete>>>"
		b := make([]byte, 0, 2*len(s))
		for _, c := range s {
			b = append(b, 0, byte(c))
		}
		link = der.CtxC(2, &der.Node{Class: der.ClassContext, Tag: 0, Content: b})
	} else {
		link = der.CtxC(2, &der.Node{Class: der.ClassContext, Tag: 0, Content: []byte{}})
	}
	peImageData := der.Seq(der.Prim(der.TagBitString, []byte{0}), der.CtxC(0, link))
	spc := der.Seq(
		der.Seq(der.OID(cms.OIDSpcPEImage...), peImageData),
		der.Seq(cms.AlgID(cms.OIDSHA256, true), der.Octets(h.Digest)),
	)
	attrs := []*der.Node{
		cms.Attr(cms.OIDContentType, der.OID(cms.OIDSpcIndirect...)),
		cms.Attr(cms.OIDMessageDigest, der.Octets(cms.Digest(spc.Value()))),
	}
	if o.SigningTime != nil {
		attrs = append(attrs, cms.Attr(cms.OIDSigningTime, der.Prim(der.TagUTCTime, o.SigningTime)))
	}
	bo := cms.BuildOpts{ContentType: cms.OIDSpcIndirect, EContent: spc, Attrs: cms.SortSetOf(attrs), Outer: true, SDVersion: 1, SIVersion: 1, DigestNull: true, SigAlgNull: true}
	if !o.NoCerts {
		bo.Certs = [][]byte{cert.Raw}
	}
	if o.SigAlgSHA256RSA {
		bo.SigAlgOID = cms.OIDSHA256RSA
	}
	blob, err := cms.Build(key, cert, bo)
	if err != nil {
		return nil, err
	}
	blobs = append(blobs, blob)
	return WithTable(padded, BuildTable(blobs))
}
