// Package esl is an independent reference codec for EFI_SIGNATURE_LIST streams
// (UEFI 2.x section 32.4.1), written against the specification's layout only:
//
//	EFI_GUID SignatureType; UINT32 SignatureListSize; UINT32 SignatureHeaderSize;
//	UINT32 SignatureSize; UINT8 SignatureHeader[SignatureHeaderSize];
//	EFI_SIGNATURE_DATA Signatures[][SignatureSize]   (EFI_GUID SignatureOwner; UINT8 SignatureData[])
package esl

import (
	"bytes"
	"encoding/binary"
	"fmt"

	"verifharness/ref/guid"
)

var (
	X509    = guid.G{D1: 0xa5c059a1, D2: 0x94e4, D3: 0x4aa7, D4: [8]byte{0x87, 0xb5, 0xab, 0x15, 0x5c, 0x2b, 0xf0, 0x72}}
	SHA256  = guid.G{D1: 0xc1c41626, D2: 0x504c, D3: 0x4092, D4: [8]byte{0xac, 0xa9, 0x41, 0xf9, 0x36, 0x93, 0x43, 0x28}}
	ExtMgm  = guid.G{D1: 0x452e8ced, D2: 0xdfff, D3: 0x4b8c, D4: [8]byte{0xae, 0x01, 0x51, 0x18, 0x86, 0x2e, 0x68, 0x2c}}
	SHA1    = guid.G{D1: 0x826ca512, D2: 0xcf10, D3: 0x4ac9, D4: [8]byte{0xb1, 0x87, 0xbe, 0x01, 0x49, 0x66, 0x31, 0xbd}}
	SHA384  = guid.G{D1: 0xff3e5307, D2: 0x9fd0, D3: 0x48c9, D4: [8]byte{0x85, 0xf1, 0x8a, 0xd5, 0x6c, 0x70, 0x1e, 0x01}}
	SHA512  = guid.G{D1: 0x093e0fae, D2: 0xa6c4, D3: 0x4f50, D4: [8]byte{0x9f, 0x1b, 0xd4, 0x1e, 0x2b, 0x89, 0xc1, 0x9a}}
	RSA2048 = guid.G{D1: 0x3c5766e8, D2: 0x269c, D3: 0x4e34, D4: [8]byte{0xaa, 0x14, 0xed, 0x77, 0x6e, 0x85, 0xb3, 0xb6}}
)

// Handled reports whether the decoder under test handles the list type.
func Handled(t guid.G) bool { return t == X509 || t == SHA256 || t == ExtMgm }

// Entry is one EFI_SIGNATURE_DATA.
type Entry struct {
	Owner guid.G
	Data  []byte
}

// List is one EFI_SIGNATURE_LIST. Size is the SignatureSize field (16 + data length).
type List struct {
	Type    guid.G
	Size    uint32
	Header  []byte
	Entries []Entry
}

// ListSize is the value of the SignatureListSize field.
func (l List) ListSize() uint32 { return 28 + uint32(len(l.Header)) + uint32(len(l.Entries))*l.Size }

// Encode writes the lists in order.
func Encode(lists []List) []byte {
	var b []byte
	for _, l := range lists {
		b = append(b, l.Type.Wire()...)
		b = binary.LittleEndian.AppendUint32(b, l.ListSize())
		b = binary.LittleEndian.AppendUint32(b, uint32(len(l.Header)))
		b = binary.LittleEndian.AppendUint32(b, l.Size)
		b = append(b, l.Header...)
		for _, e := range l.Entries {
			b = append(b, e.Owner.Wire()...)
			b = append(b, e.Data...)
		}
	}
	return b
}

// Split decodes a stream structurally, for any list type: the whole input must
// split into lists with ListSize == 28 + HeaderSize + n*Size and Size >= 16.
func Split(in []byte) ([]List, error) {
	var out []List
	off := 0
	for off < len(in) {
		rem := in[off:]
		if len(rem) < 28 {
			return nil, fmt.Errorf("offset %d: %d bytes left, less than a list header", off, len(rem))
		}
		var l List
		l.Type = guid.FromWire(rem[0:16])
		ls := binary.LittleEndian.Uint32(rem[16:])
		hs := binary.LittleEndian.Uint32(rem[20:])
		ss := binary.LittleEndian.Uint32(rem[24:])
		if ls < 28 {
			return nil, fmt.Errorf("offset %d: ListSize %d < 28", off, ls)
		}
		if uint64(ls) > uint64(len(rem)) {
			return nil, fmt.Errorf("offset %d: ListSize %d exceeds the remaining %d bytes", off, ls, len(rem))
		}
		if uint64(hs) > uint64(ls)-28 {
			return nil, fmt.Errorf("offset %d: HeaderSize %d does not fit ListSize %d", off, hs, ls)
		}
		if ss < 16 {
			return nil, fmt.Errorf("offset %d: SignatureSize %d < 16", off, ss)
		}
		body := ls - 28 - hs
		if body%ss != 0 {
			return nil, fmt.Errorf("offset %d: ListSize %d is not 28 + %d + n*%d", off, ls, hs, ss)
		}
		l.Size = ss
		l.Header = append([]byte{}, rem[28:28+hs]...)
		p := 28 + hs
		for i := uint32(0); i < body/ss; i++ {
			e := Entry{Owner: guid.FromWire(rem[p : p+16]), Data: append([]byte{}, rem[p+16:p+ss]...)}
			l.Entries = append(l.Entries, e)
			p += ss
		}
		out = append(out, l)
		off += int(ls)
	}
	return out, nil
}

// Decode is the reference verdict for the decoder under test: Split, and every
// list is of a handled type, SHA-256 lists have SignatureSize 48.
func Decode(in []byte) ([]List, error) {
	ls, err := Split(in)
	if err != nil {
		return nil, err
	}
	for i, l := range ls {
		if !Handled(l.Type) {
			return nil, fmt.Errorf("list %d: type %s is not handled by the decoder", i, l.Type.Text())
		}
		if l.Type == SHA256 && l.Size != 48 {
			return nil, fmt.Errorf("list %d: SHA-256 list with SignatureSize %d", i, l.Size)
		}
	}
	return ls, nil
}

// Flat is one (type, owner, data) entry of the flattened view.
type Flat struct {
	Type  guid.G
	Owner guid.G
	Data  []byte
}

// Flatten lists all entries in stream order.
func Flatten(ls []List) []Flat {
	var out []Flat
	for _, l := range ls {
		for _, e := range l.Entries {
			out = append(out, Flat{l.Type, e.Owner, e.Data})
		}
	}
	return out
}

// EqualFlat compares two entries.
func EqualFlat(a, b Flat) bool {
	return a.Type == b.Type && a.Owner == b.Owner && bytes.Equal(a.Data, b.Data)
}

// EqualLists compares two decoded streams field by field.
func EqualLists(a, b []List) error {
	if len(a) != len(b) {
		return fmt.Errorf("%d lists vs %d lists", len(a), len(b))
	}
	for i := range a {
		x, y := a[i], b[i]
		if x.Type != y.Type {
			return fmt.Errorf("list %d: type %s vs %s", i, x.Type.Text(), y.Type.Text())
		}
		if x.Size != y.Size {
			return fmt.Errorf("list %d: SignatureSize %d vs %d", i, x.Size, y.Size)
		}
		if !bytes.Equal(x.Header, y.Header) {
			return fmt.Errorf("list %d: header %x vs %x", i, x.Header, y.Header)
		}
		if len(x.Entries) != len(y.Entries) {
			return fmt.Errorf("list %d: %d entries vs %d", i, len(x.Entries), len(y.Entries))
		}
		for j := range x.Entries {
			if x.Entries[j].Owner != y.Entries[j].Owner || !bytes.Equal(x.Entries[j].Data, y.Entries[j].Data) {
				return fmt.Errorf("list %d entry %d: (%s, %x) vs (%s, %x)", i, j, x.Entries[j].Owner.Text(), x.Entries[j].Data, y.Entries[j].Owner.Text(), y.Entries[j].Data)
			}
		}
	}
	return nil
}
