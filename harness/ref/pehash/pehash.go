// Package pehash is an independent, literal transcription of "Calculating the
// PE Image Hash" (Microsoft, Windows Authenticode Portable Executable
// Signature Format, steps 3-14) on top of encoding/binary only. It shares no
// code with the library under test and does not use debug/pe.
package pehash

import (
	"crypto/sha256"
	"encoding/binary"
	"fmt"
	"hash"
	"sort"
)

// Sec is one section header (the fields that matter for hashing).
type Sec struct {
	HdrIndex int    // position in the section table
	Ptr      uint32 // PointerToRawData
	Size     uint32 // SizeOfRawData
}

// Layout is the parsed header layout of an image.
type Layout struct {
	PE32          bool
	Lfanew        int
	OptOff        int // offset of the optional header
	OptSize       int // SizeOfOptionalHeader
	CksumOff      int // offset of CheckSum (4 bytes)
	DD4Off        int // offset of the certificate table directory entry (8 bytes)
	NumDirs       uint32
	SecTableOff   int
	NumSections   int
	SizeOfHeaders uint32
	Sections      []Sec
	CertVA        uint32
	CertSize      uint32
}

var le = binary.LittleEndian

// Parse reads the header layout. It only checks what it needs to read the fields.
func Parse(img []byte) (*Layout, error) {
	if len(img) < 64 || img[0] != 'M' || img[1] != 'Z' {
		return nil, fmt.Errorf("no DOS header")
	}
	if lf := uint64(le.Uint32(img[0x3c:])); lf+24 > uint64(len(img)) { // (64-bit comparison: int is 32 bits wide in the GOARCH=386 shards)
		return nil, fmt.Errorf("e_lfanew %d outside the file", lf)
	}
	l := &Layout{Lfanew: int(le.Uint32(img[0x3c:]))}
	if string(img[l.Lfanew:l.Lfanew+4]) != "PE\x00\x00" {
		return nil, fmt.Errorf("no PE signature at %d", l.Lfanew)
	}
	coff := l.Lfanew + 4
	l.NumSections = int(le.Uint16(img[coff+2:]))
	l.OptSize = int(le.Uint16(img[coff+16:]))
	l.OptOff = coff + 20
	if l.OptOff+l.OptSize > len(img) || l.OptSize < 2 {
		return nil, fmt.Errorf("optional header outside the file")
	}
	var ddOff, nOff int
	switch le.Uint16(img[l.OptOff:]) {
	case 0x10b:
		l.PE32 = true
		nOff, ddOff = l.OptOff+92, l.OptOff+96
	case 0x20b:
		nOff, ddOff = l.OptOff+108, l.OptOff+112
	default:
		return nil, fmt.Errorf("optional header magic %#x", le.Uint16(img[l.OptOff:]))
	}
	if ddOff-l.OptOff > l.OptSize {
		return nil, fmt.Errorf("SizeOfOptionalHeader %d smaller than the fixed part", l.OptSize)
	}
	l.NumDirs = le.Uint32(img[nOff:])
	if uint64(ddOff-l.OptOff)+8*uint64(l.NumDirs) != uint64(l.OptSize) {
		return nil, fmt.Errorf("SizeOfOptionalHeader %d inconsistent with %d data directories", l.OptSize, l.NumDirs)
	}
	if l.NumDirs < 5 {
		return nil, fmt.Errorf("%d data directories: no certificate table entry", l.NumDirs)
	}
	l.CksumOff = l.OptOff + 64
	l.SizeOfHeaders = le.Uint32(img[l.OptOff+60:])
	l.DD4Off = ddOff + 4*8
	l.CertVA = le.Uint32(img[l.DD4Off:])
	l.CertSize = le.Uint32(img[l.DD4Off+4:])
	l.SecTableOff = l.OptOff + l.OptSize
	if l.SecTableOff+40*l.NumSections > len(img) {
		return nil, fmt.Errorf("section table outside the file")
	}
	for i := 0; i < l.NumSections; i++ {
		h := img[l.SecTableOff+40*i:]
		l.Sections = append(l.Sections, Sec{HdrIndex: i, Size: le.Uint32(h[16:]), Ptr: le.Uint32(h[20:])})
	}
	return l, nil
}

// HeadersEnd is the end of the section table.
func (l *Layout) HeadersEnd() int { return l.SecTableOff + 40*l.NumSections }

// WellFormed is the validity predicate that defines the domain of C01:
// headers inside SizeOfHeaders, non-empty sections inside the file, after the
// headers, not overlapping each other nor the certificate table; a certificate
// table, if any, 8-aligned, a multiple of 8 long and ending at end of file.
func (l *Layout) WellFormed(img []byte) error { return l.wellFormed(img, true) }

// WellFormedInput is WellFormed without the alignment demands on an existing certificate table (a table of any
// size that ends the file): what a hashing tool may be handed, as opposed to what a signing tool has to produce.
// The specification's hash is defined for such images all the same.
func (l *Layout) WellFormedInput(img []byte) error { return l.wellFormed(img, false) }

func (l *Layout) wellFormed(img []byte, alignedTable bool) error {
	n := uint64(len(img))
	if uint64(l.SizeOfHeaders) < uint64(l.HeadersEnd()) {
		return fmt.Errorf("SizeOfHeaders %d before the end of the section table %d", l.SizeOfHeaders, l.HeadersEnd())
	}
	contentEnd := n
	if l.CertSize != 0 {
		if uint64(l.CertVA)+uint64(l.CertSize) != n {
			return fmt.Errorf("certificate table [%d,+%d) does not end at end of file %d", l.CertVA, l.CertSize, n)
		}
		if alignedTable && (l.CertVA%8 != 0 || l.CertSize%8 != 0) {
			return fmt.Errorf("certificate table not 8-aligned")
		}
		contentEnd = uint64(l.CertVA)
	}
	if uint64(l.SizeOfHeaders) > contentEnd {
		return fmt.Errorf("SizeOfHeaders %d beyond the image content %d", l.SizeOfHeaders, contentEnd)
	}
	var ss []Sec
	for _, s := range l.Sections {
		if s.Size != 0 {
			ss = append(ss, s)
		}
	}
	sort.Slice(ss, func(i, j int) bool { return ss[i].Ptr < ss[j].Ptr })
	prev := uint64(l.SizeOfHeaders)
	for _, s := range ss {
		if uint64(s.Ptr) < prev {
			return fmt.Errorf("section %d at %d overlaps headers or the previous section (ends %d)", s.HdrIndex, s.Ptr, prev)
		}
		prev = uint64(s.Ptr) + uint64(s.Size)
		if prev > contentEnd {
			return fmt.Errorf("section %d [%d,+%d) beyond the image content %d", s.HdrIndex, s.Ptr, s.Size, contentEnd)
		}
	}
	return nil
}

// GapFree reports whether headers, sections and trailing data tile the content
// without holes (then the hash covers every byte except the excluded fields).
func (l *Layout) GapFree() bool {
	var ss []Sec
	for _, s := range l.Sections {
		if s.Size != 0 {
			ss = append(ss, s)
		}
	}
	sort.Slice(ss, func(i, j int) bool { return ss[i].Ptr < ss[j].Ptr })
	prev := uint64(l.SizeOfHeaders)
	for _, s := range ss {
		if uint64(s.Ptr) != prev {
			return false
		}
		prev += uint64(s.Size)
	}
	return true
}

// Result is the outcome of the reference hash.
type Result struct {
	Digest  []byte
	Covered []uint16 // per file offset: how many times the byte was fed to the hash
	Padding int      // zero bytes appended after the file content
	Stream  int      // total bytes hashed
}

// Hash applies steps 3-14 to the image zero-padded to an 8-byte boundary.
func Hash(img []byte) (*Result, error) {
	l, err := Parse(img)
	if err != nil {
		return nil, err
	}
	return l.Hash(img)
}

// Hash applies steps 3-14 with the parsed layout and SHA-256.
func (l *Layout) Hash(img []byte) (*Result, error) { return l.HashWith(img, sha256.New()) }

// HashWith applies steps 3-14 with the given hash function.
func (l *Layout) HashWith(img []byte, h hash.Hash) (*Result, error) {
	res := &Result{Covered: make([]uint16, len(img))}
	feed := func(from, to uint64) error {
		if from > to || to > uint64(len(img)) {
			return fmt.Errorf("range [%d,%d) outside the %d-byte file", from, to, len(img))
		}
		h.Write(img[from:to])
		for i := from; i < to; i++ {
			res.Covered[i]++
		}
		res.Stream += int(to - from)
		return nil
	}
	// 3. header up to the checksum; 4. skip checksum; 5. up to the certificate table entry;
	// 6./7. skip the entry, hash to the end of the headers (SizeOfHeaders)
	if err := feed(0, uint64(l.CksumOff)); err != nil {
		return nil, err
	}
	if err := feed(uint64(l.CksumOff)+4, uint64(l.DD4Off)); err != nil {
		return nil, err
	}
	if err := feed(uint64(l.DD4Off)+8, uint64(l.SizeOfHeaders)); err != nil {
		return nil, err
	}
	// 8. SUM_OF_BYTES_HASHED = SizeOfHeaders
	sum := uint64(l.SizeOfHeaders)
	// 9./10. section headers sorted by PointerToRawData
	ss := append([]Sec{}, l.Sections...)
	sort.SliceStable(ss, func(i, j int) bool { return ss[i].Ptr < ss[j].Ptr })
	// 11.-13. hash every section with SizeOfRawData != 0
	for _, s := range ss {
		if s.Size == 0 {
			continue
		}
		if err := feed(uint64(s.Ptr), uint64(s.Ptr)+uint64(s.Size)); err != nil {
			return nil, err
		}
		sum += uint64(s.Size)
	}
	// 14. extra data: FILE_SIZE - (certificate table size + SUM_OF_BYTES_HASHED) bytes at SUM_OF_BYTES_HASHED
	fileSize := uint64(len(img))
	if fileSize > sum {
		if uint64(l.CertSize)+sum > fileSize {
			return nil, fmt.Errorf("certificate table size %d + hashed %d exceed the file size %d", l.CertSize, sum, fileSize)
		}
		if err := feed(sum, fileSize-uint64(l.CertSize)); err != nil {
			return nil, err
		}
	}
	// image zero-padded to an 8-byte boundary
	if r := len(img) % 8; r != 0 {
		res.Padding = 8 - r
		h.Write(make([]byte, res.Padding))
		res.Stream += res.Padding
	}
	res.Digest = h.Sum(nil)
	return res, nil
}

// Region names the structural region a file offset belongs to.
func (l *Layout) Region(img []byte, p int) string {
	switch {
	case p < 64:
		return "dos_header"
	case p < l.Lfanew:
		return "dos_stub"
	case p < l.OptOff:
		return "pe_sig_coff_header"
	case p >= l.CksumOff && p < l.CksumOff+4:
		return "checksum"
	case p >= l.DD4Off && p < l.DD4Off+4:
		return "certdir_address"
	case p >= l.DD4Off+4 && p < l.DD4Off+8:
		return "certdir_size"
	case p < l.CksumOff:
		return "opt_header_before_checksum"
	case p < l.SecTableOff:
		return "opt_header_after_checksum"
	case p < l.HeadersEnd():
		return "section_table"
	case uint64(p) < uint64(l.SizeOfHeaders):
		return "header_padding"
	}
	if l.CertSize != 0 && uint64(p) >= uint64(l.CertVA) {
		return "certificate_table"
	}
	last := uint64(l.SizeOfHeaders)
	for _, s := range l.Sections {
		if s.Size == 0 {
			continue
		}
		if uint64(p) >= uint64(s.Ptr) && uint64(p) < uint64(s.Ptr)+uint64(s.Size) {
			switch uint64(p) {
			case uint64(s.Ptr):
				return "section_first_byte"
			case uint64(s.Ptr) + uint64(s.Size) - 1:
				return "section_last_byte"
			}
			return "section_body"
		}
		if e := uint64(s.Ptr) + uint64(s.Size); e > last {
			last = e
		}
	}
	if uint64(p) >= last {
		return "trailing_data"
	}
	return "gap"
}
