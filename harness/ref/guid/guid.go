// Package guid is an independent reference for EFI GUID conversions
// (UEFI spec Appendix A): text form, big-endian field bytes and the
// in-structure ("wire", mixed-endian) layout.
package guid

import (
	"encoding/binary"
	"fmt"
)

// G is a GUID as its four fields.
type G struct {
	D1 uint32
	D2 uint16
	D3 uint16
	D4 [8]byte
}

// Text is the canonical 36 character lower-case form.
func (g G) Text() string {
	return fmt.Sprintf("%08x-%04x-%04x-%02x%02x-%02x%02x%02x%02x%02x%02x",
		g.D1, g.D2, g.D3, g.D4[0], g.D4[1], g.D4[2], g.D4[3], g.D4[4], g.D4[5], g.D4[6], g.D4[7])
}

// BE is the field bytes in big-endian order (the order of the text form).
func (g G) BE() []byte {
	b := make([]byte, 16)
	binary.BigEndian.PutUint32(b[0:], g.D1)
	binary.BigEndian.PutUint16(b[4:], g.D2)
	binary.BigEndian.PutUint16(b[6:], g.D3)
	copy(b[8:], g.D4[:])
	return b
}

// Wire is the layout inside EFI structures: Data1..3 little-endian, then Data4.
func (g G) Wire() []byte {
	b := make([]byte, 16)
	binary.LittleEndian.PutUint32(b[0:], g.D1)
	binary.LittleEndian.PutUint16(b[4:], g.D2)
	binary.LittleEndian.PutUint16(b[6:], g.D3)
	copy(b[8:], g.D4[:])
	return b
}

// FromWire decodes the in-structure layout.
func FromWire(b []byte) G {
	var g G
	g.D1 = binary.LittleEndian.Uint32(b[0:])
	g.D2 = binary.LittleEndian.Uint16(b[4:])
	g.D3 = binary.LittleEndian.Uint16(b[6:])
	copy(g.D4[:], b[8:16])
	return g
}

// FromBE decodes the big-endian field bytes.
func FromBE(b []byte) G {
	var g G
	g.D1 = binary.BigEndian.Uint32(b[0:])
	g.D2 = binary.BigEndian.Uint16(b[4:])
	g.D3 = binary.BigEndian.Uint16(b[6:])
	copy(g.D4[:], b[8:16])
	return g
}
