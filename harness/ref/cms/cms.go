// Package cms is an independent reader, verifier and producer for the subset of
// PKCS#7 / CMS SignedData (RFC 2315, RFC 5652) that UEFI Secure Boot uses. It is
// written on the harness TLV tree (ref/der) and crypto/rsa only: no
// encoding/asn1, no cryptobyte, no code shared with the library under test.
package cms

import (
	"bytes"
	"crypto"
	"crypto/rsa"
	_ "crypto/sha1"
	"crypto/sha256"
	_ "crypto/sha512"
	"crypto/x509"
	"fmt"
	"math/big"
	"sort"

	"verifharness/ref/der"
)

// OIDs (as arcs)
var (
	OIDData          = []uint64{1, 2, 840, 113549, 1, 7, 1}
	OIDSignedData    = []uint64{1, 2, 840, 113549, 1, 7, 2}
	OIDSHA256        = []uint64{2, 16, 840, 1, 101, 3, 4, 2, 1}
	OIDRSA           = []uint64{1, 2, 840, 113549, 1, 1, 1}
	OIDSHA256RSA     = []uint64{1, 2, 840, 113549, 1, 1, 11}
	OIDContentType   = []uint64{1, 2, 840, 113549, 1, 9, 3}
	OIDMessageDigest = []uint64{1, 2, 840, 113549, 1, 9, 4}
	OIDSigningTime   = []uint64{1, 2, 840, 113549, 1, 9, 5}
	OIDSMIMECaps     = []uint64{1, 2, 840, 113549, 1, 9, 15}
	OIDSpcIndirect   = []uint64{1, 3, 6, 1, 4, 1, 311, 2, 1, 4}
	OIDSpcPEImage    = []uint64{1, 3, 6, 1, 4, 1, 311, 2, 1, 15}
)

// Signer gives access to the parts of one SignerInfo.
type Signer struct {
	Node      *der.Node
	Version   *der.Node
	IAS       *der.Node // IssuerAndSerialNumber SEQUENCE (nil for subjectKeyIdentifier signers)
	Issuer    *der.Node
	Serial    *der.Node
	DigestAlg *der.Node
	Attrs     *der.Node // [0] IMPLICIT, nil when absent
	SigAlg    *der.Node
	Sig       *der.Node
	UnAttrs   *der.Node
}

// SD gives access to the parts of a SignedData.
type SD struct {
	Root       *der.Node // outermost element of the blob
	HasOuter   bool      // Root is a ContentInfo wrapping the SignedData
	OuterOID   *der.Node
	Body       *der.Node // the SignedData SEQUENCE
	Version    *der.Node
	DigestAlgs *der.Node
	EncapCI    *der.Node // encapsulated ContentInfo SEQUENCE
	EType      *der.Node // its contentType
	EContent0  *der.Node // its [0] EXPLICIT wrapper, nil when content is absent
	Certs      *der.Node // [0] IMPLICIT, nil when absent
	CRLs       *der.Node
	SignerSet  *der.Node
	Signers    []*Signer
}

// Parse reads a blob tolerantly (definite lengths of any form).
func Parse(blob []byte) (*SD, error) {
	root, err := der.ParseOne(blob, der.Options{})
	if err != nil {
		// tolerate trailing bytes like the library does (it reads one element)
		var rest []byte
		root, rest, err = der.Parse(blob, der.Options{})
		_ = rest
		if err != nil {
			return nil, err
		}
	}
	return Locate(root)
}

// Locate finds the SignedData parts in a parsed tree.
func Locate(root *der.Node) (*SD, error) {
	sd := &SD{Root: root}
	if !root.IsSeq() || len(root.Children) == 0 {
		return nil, fmt.Errorf("not a SEQUENCE")
	}
	body := root
	if root.Children[0].Is(der.ClassUniversal, der.TagOID) {
		sd.HasOuter = true
		sd.OuterOID = root.Children[0]
		if len(root.Children) < 2 || !root.Children[1].Ctx(0) || len(root.Children[1].Children) == 0 {
			return nil, fmt.Errorf("ContentInfo without content")
		}
		body = root.Children[1].Children[0]
		if !body.IsSeq() {
			return nil, fmt.Errorf("ContentInfo content is not a SEQUENCE")
		}
	}
	sd.Body = body
	ch := body.Children
	if len(ch) < 4 {
		return nil, fmt.Errorf("SignedData with %d fields", len(ch))
	}
	i := 0
	if !ch[i].Is(der.ClassUniversal, der.TagInteger) {
		return nil, fmt.Errorf("no version")
	}
	sd.Version = ch[i]
	i++
	if !ch[i].IsSet() {
		return nil, fmt.Errorf("no digestAlgorithms")
	}
	sd.DigestAlgs = ch[i]
	i++
	if !ch[i].IsSeq() || len(ch[i].Children) == 0 || !ch[i].Children[0].Is(der.ClassUniversal, der.TagOID) {
		return nil, fmt.Errorf("no encapsulated ContentInfo")
	}
	sd.EncapCI = ch[i]
	sd.EType = ch[i].Children[0]
	// eContent is [0] EXPLICIT: a constructed context element. Something else in that slot (a primitive [0], another
	// tag) is not encapsulated content in any reading; the weakest predicate then has nothing to compare the
	// message digest with, like a decoder that skips what it does not recognise.
	if len(ch[i].Children) > 1 && ch[i].Children[1].Ctx(0) && ch[i].Children[1].Constructed {
		sd.EContent0 = ch[i].Children[1]
	}
	i++
	if i < len(ch) && ch[i].Ctx(0) {
		sd.Certs = ch[i]
		i++
	}
	if i < len(ch) && ch[i].Ctx(1) {
		sd.CRLs = ch[i]
		i++
	}
	if i >= len(ch) || !ch[i].IsSet() {
		return nil, fmt.Errorf("no signerInfos")
	}
	sd.SignerSet = ch[i]
	for _, sn := range sd.SignerSet.Children {
		s, err := locateSigner(sn)
		if err != nil {
			return nil, err
		}
		sd.Signers = append(sd.Signers, s)
	}
	return sd, nil
}

func locateSigner(n *der.Node) (*Signer, error) {
	if !n.IsSeq() {
		return nil, fmt.Errorf("SignerInfo is not a SEQUENCE")
	}
	s := &Signer{Node: n}
	ch := n.Children
	if len(ch) < 5 {
		return nil, fmt.Errorf("SignerInfo with %d fields", len(ch))
	}
	i := 0
	s.Version = ch[i]
	i++
	if ch[i].IsSeq() {
		s.IAS = ch[i]
		if len(ch[i].Children) >= 2 {
			s.Issuer, s.Serial = ch[i].Children[0], ch[i].Children[1]
		}
	}
	i++
	s.DigestAlg = ch[i]
	i++
	if i < len(ch) && ch[i].Ctx(0) {
		s.Attrs = ch[i]
		i++
	}
	if i+1 >= len(ch) {
		return nil, fmt.Errorf("SignerInfo too short")
	}
	s.SigAlg = ch[i]
	i++
	s.Sig = ch[i]
	i++
	if i < len(ch) && ch[i].Ctx(1) {
		s.UnAttrs = ch[i]
	}
	return s, nil
}

// SignedAttrBytes is the DER SET OF encoding of the signed attributes exactly
// as they appear in the blob: 0x31, DER length, the value octets of the [0] element.
func (s *Signer) SignedAttrBytes() []byte {
	v := s.Attrs.RawValue()
	out := append([]byte{0x31}, der.EncodeLen(len(v))...)
	return append(out, v...)
}

// AttrValues returns the value elements of every attribute with the given type, in blob order.
func (s *Signer) AttrValues(oid []uint64) []*der.Node {
	var out []*der.Node
	if s.Attrs == nil {
		return nil
	}
	for _, a := range s.Attrs.Children {
		if !a.IsSeq() || len(a.Children) < 2 || !der.EqualOID(a.Children[0], oid...) {
			continue
		}
		if a.Children[1].IsSet() {
			out = append(out, a.Children[1].Children...)
		}
	}
	return out
}

// SerialInt decodes the serial as a two's complement integer.
func (s *Signer) SerialInt() *big.Int {
	if s.Serial == nil || len(s.Serial.Content) == 0 {
		return nil
	}
	c := s.Serial.Content
	v := new(big.Int).SetBytes(c)
	if c[0]&0x80 != 0 {
		v.Sub(v, new(big.Int).Lsh(big.NewInt(1), uint(8*len(c))))
	}
	return v
}

// Names the certificate?
func (s *Signer) Names(cert *x509.Certificate) bool {
	if s.Issuer == nil || s.Serial == nil || !s.Serial.Is(der.ClassUniversal, der.TagInteger) {
		return false
	}
	si := s.SerialInt()
	return bytes.Equal(s.Issuer.RawBytes(), cert.RawIssuer) && si != nil && si.Cmp(cert.SerialNumber) == 0
}

// EContentOctets returns the candidate byte strings the message digest may
// legitimately cover: the value octets of the encapsulated content element
// (RFC 2315 / Authenticode), and for a constructed OCTET STRING also the
// concatenation of its segments (CMS). ok is false when no content is encapsulated.
func (sd *SD) EContentOctets() (cands [][]byte, ok bool) {
	if sd.EContent0 == nil || len(sd.EContent0.RawValue()) == 0 {
		return nil, false
	}
	var el *der.Node
	if len(sd.EContent0.Children) > 0 {
		el = sd.EContent0.Children[0]
	} else {
		// opaque content: take the first element's value
		n, _, err := der.Parse(sd.EContent0.RawValue(), der.Options{})
		if err != nil {
			return nil, false
		}
		el = n
	}
	cands = append(cands, el.RawValue())
	if el.Is(der.ClassUniversal, der.TagOctetString) && el.Constructed {
		var cat []byte
		for _, c := range el.Children {
			cat = append(cat, c.RawValue()...)
		}
		cands = append(cands, cat)
	}
	return cands, true
}

// Verdict explains an Accepts decision.
type Verdict struct {
	OK          bool
	SignerMatch bool // some SignerInfo names the certificate
	SigValid    bool // ... and its RSA-SHA256 signature over the attributes as they appear verifies
	Reason      string
}

// Accepts is the reference predicate of C04, deliberately the weakest one the
// statement allows: some SignerInfo names the certificate's issuer and serial,
// has signed attributes, carries a PKCS#1 v1.5 RSA-SHA256 signature that is
// valid under the certificate's key over the DER SET of the attribute bytes as
// they appear in the blob, and, when the SignedData encapsulates content, one
// of its messageDigest values equals SHA-256 of the content octets.
func Accepts(blob []byte, cert *x509.Certificate) Verdict {
	sd, err := Parse(blob)
	if err != nil {
		return Verdict{Reason: "unparsable: " + err.Error()}
	}
	return sd.Accepts(cert)
}

// Accepts on a parsed SignedData.
func (sd *SD) Accepts(cert *x509.Certificate) Verdict {
	pub, ok := cert.PublicKey.(*rsa.PublicKey)
	if !ok {
		return Verdict{Reason: "certificate has no RSA key"}
	}
	v := Verdict{Reason: "no SignerInfo names the certificate"}
	for _, s := range sd.Signers {
		if !s.Names(cert) {
			continue
		}
		v.SignerMatch = true
		if s.Attrs == nil {
			v.Reason = "signer has no signed attributes"
			continue
		}
		if s.Sig == nil || !s.Sig.Is(der.ClassUniversal, der.TagOctetString) {
			v.Reason = "no signature octets"
			continue
		}
		h := sha256.Sum256(s.SignedAttrBytes())
		if err := rsa.VerifyPKCS1v15(pub, crypto.SHA256, h[:], s.Sig.RawValue()); err != nil {
			v.Reason = "signature does not verify over the attributes as they appear"
			continue
		}
		v.SigValid = true
		cands, has := sd.EContentOctets()
		if !has {
			v.OK, v.Reason = true, "valid (no encapsulated content)"
			return v
		}
		for _, md := range s.AttrValues(OIDMessageDigest) {
			if !md.Is(der.ClassUniversal, der.TagOctetString) {
				continue
			}
			for _, c := range cands {
				d := sha256.Sum256(c)
				if bytes.Equal(md.RawValue(), d[:]) {
					v.OK, v.Reason = true, "valid (message digest matches the encapsulated content)"
					return v
				}
			}
		}
		v.Reason = "signed message digest does not match the encapsulated content"
	}
	return v
}

// ---------------------------------------------------------------------------
// producer (independent of the library): used to emulate third-party tools

// Attr builds an Attribute SEQUENCE { type, SET { values... } }.
func Attr(oid []uint64, values ...*der.Node) *der.Node {
	return der.Seq(der.OID(oid...), der.Set(values...))
}

// AlgID builds an AlgorithmIdentifier, with or without the NULL parameter.
func AlgID(oid []uint64, withNull bool) *der.Node {
	if withNull {
		return der.Seq(der.OID(oid...), der.Null())
	}
	return der.Seq(der.OID(oid...))
}

// SortSetOf sorts encodings the DER SET OF way (bytewise ascending).
func SortSetOf(nodes []*der.Node) []*der.Node {
	out := append([]*der.Node{}, nodes...)
	sort.SliceStable(out, func(i, j int) bool { return bytes.Compare(out[i].Encode(), out[j].Encode()) < 0 })
	return out
}

// BuildOpts parameterises Build.
type BuildOpts struct {
	ContentType []uint64
	EContent    *der.Node   // element placed inside [0] EXPLICIT; nil = detached
	Attrs       []*der.Node // signed attributes in the order they are to appear
	Certs       [][]byte    // embedded certificates (DER); nil = no certificates field
	Outer       bool        // wrap in a ContentInfo
	SDVersion   byte
	SIVersion   byte
	DigestNull  bool // NULL parameter in digest AlgorithmIdentifiers
	SigAlgOID   []uint64
	SigAlgNull  bool
	Unsigned    []*der.Node // unauthenticated attributes
	Hash        crypto.Hash // digest algorithm of the signer (0 = SHA-256); the caller supplies matching attributes
	NoAttrs     bool        // no signed attributes at all (RFC 2315 9.3 / openssl -noattr): the signature is over Content
	Content     []byte      // what is signed when NoAttrs is set
}

// HashOID returns the digest algorithm OID for the hashes Build knows.
func HashOID(h crypto.Hash) []uint64 {
	switch h {
	case crypto.SHA1:
		return []uint64{1, 3, 14, 3, 2, 26}
	case crypto.SHA384:
		return []uint64{2, 16, 840, 1, 101, 3, 4, 2, 2}
	case crypto.SHA512:
		return []uint64{2, 16, 840, 1, 101, 3, 4, 2, 3}
	}
	return OIDSHA256
}

// Build produces a SignedData with one SignerInfo signed by key for cert.
func Build(key *rsa.PrivateKey, cert *x509.Certificate, o BuildOpts) ([]byte, error) {
	issuer, err := der.ParseOne(cert.RawIssuer, der.Options{})
	if err != nil {
		return nil, err
	}
	attrs := &der.Node{Class: der.ClassContext, Constructed: true, Tag: 0, Children: o.Attrs}
	if attrs.Children == nil {
		attrs.Children = []*der.Node{}
	}
	v := attrs.Value()
	tbs := append(append([]byte{0x31}, der.EncodeLen(len(v))...), v...)
	if o.NoAttrs {
		tbs = o.Content
	}
	hash := o.Hash
	if hash == 0 {
		hash = crypto.SHA256
	}
	hh := hash.New()
	hh.Write(tbs)
	sig, err := rsa.SignPKCS1v15(nil, key, hash, hh.Sum(nil))
	if err != nil {
		return nil, err
	}
	sigAlg := o.SigAlgOID
	if sigAlg == nil {
		sigAlg = OIDRSA
	}
	si := der.Seq(der.SmallInt(o.SIVersion), der.Seq(issuer, der.Int(cert.SerialNumber.Bytes())), AlgID(HashOID(hash), o.DigestNull), attrs, AlgID(sigAlg, o.SigAlgNull), der.Octets(sig))
	if o.NoAttrs {
		si = der.Seq(der.SmallInt(o.SIVersion), der.Seq(issuer, der.Int(cert.SerialNumber.Bytes())), AlgID(HashOID(hash), o.DigestNull), AlgID(sigAlg, o.SigAlgNull), der.Octets(sig))
	}
	if len(o.Unsigned) > 0 {
		si.Children = append(si.Children, &der.Node{Class: der.ClassContext, Constructed: true, Tag: 1, Children: o.Unsigned})
	}
	eci := der.Seq(der.OID(o.ContentType...))
	if o.EContent != nil {
		eci.Children = append(eci.Children, der.CtxC(0, o.EContent))
	}
	body := der.Seq(der.SmallInt(o.SDVersion), der.Set(AlgID(HashOID(hash), o.DigestNull)), eci)
	if o.Certs != nil {
		c := &der.Node{Class: der.ClassContext, Constructed: true, Tag: 0, Opaque: true, Content: bytes.Join(o.Certs, nil)}
		body.Children = append(body.Children, c)
	}
	body.Children = append(body.Children, der.Set(si))
	if o.Outer {
		return der.Seq(der.OID(OIDSignedData...), der.CtxC(0, body)).Encode(), nil
	}
	return body.Encode(), nil
}

// Digest is SHA-256.
func Digest(b []byte) []byte { d := sha256.Sum256(b); return d[:] }

// SignAttrs signs the signer's attributes (as they are now) with key:
// PKCS#1 v1.5 RSA-SHA256 over the DER SET OF encoding.
func SignAttrs(key *rsa.PrivateKey, s *Signer) ([]byte, error) {
	v := s.Attrs.Value()
	tbs := append(append([]byte{0x31}, der.EncodeLen(len(v))...), v...)
	h := sha256.Sum256(tbs)
	return rsa.SignPKCS1v15(nil, key, crypto.SHA256, h[:])
}

// CertList parses the embedded certificates (those that parse).
func (sd *SD) CertList() []*x509.Certificate {
	if sd.Certs == nil {
		return nil
	}
	var out []*x509.Certificate
	rest := sd.Certs.Value()
	for len(rest) > 0 {
		n, r, err := der.Parse(rest, der.Options{})
		if err != nil {
			break
		}
		if c, err := x509.ParseCertificate(n.RawBytes()); err == nil {
			out = append(out, c)
		}
		rest = r
	}
	return out
}
