// Package devpath is an independent encoder for EFI_LOAD_OPTION and the device
// path node kinds the library decodes (UEFI 2.x sections 3.1.3 and 10.3).
package devpath

import (
	"encoding/binary"
	"fmt"
	"unicode/utf16"

	"verifharness/ref/guid"
)

// Node is one device path node.
type Node struct {
	Kind string // pci | acpi | hd | file | fwfile | usb

	Function, Device byte   // pci
	HID, UID         uint32 // acpi
	// hd
	PartNumber  uint32
	PartStart   uint64
	PartSize    uint64
	Signature   [16]byte
	MBRType     byte     // 1 MBR, 2 GPT
	SigType     byte     // 1 32-bit MBR signature, 2 GUID
	Path        string   // file
	FileName    [16]byte // fwfile
	Port, Iface byte     // usb
	// raw: any node type / subtype with an arbitrary body; LenField != 0 overrides the length field (then the
	// encoding is deliberately inconsistent: for robustness checks only)
	Type, Sub byte
	Body      []byte
	LenField  uint16
}

func utf16z(s string) []byte {
	var b []byte
	for _, c := range utf16.Encode([]rune(s)) {
		b = append(b, byte(c), byte(c>>8))
	}
	return append(b, 0, 0)
}

func hdr(typ, sub byte, bodyLen int) []byte {
	b := []byte{typ, sub, 0, 0}
	binary.LittleEndian.PutUint16(b[2:], uint16(4+bodyLen))
	return b
}

// Encode encodes one node.
func (n Node) Encode() []byte {
	switch n.Kind {
	case "pci":
		return append(hdr(1, 1, 2), n.Function, n.Device)
	case "acpi":
		b := hdr(2, 1, 8)
		b = binary.LittleEndian.AppendUint32(b, n.HID)
		return binary.LittleEndian.AppendUint32(b, n.UID)
	case "hd":
		b := hdr(4, 1, 38)
		b = binary.LittleEndian.AppendUint32(b, n.PartNumber)
		b = binary.LittleEndian.AppendUint64(b, n.PartStart)
		b = binary.LittleEndian.AppendUint64(b, n.PartSize)
		b = append(b, n.Signature[:]...)
		return append(b, n.MBRType, n.SigType)
	case "file":
		p := utf16z(n.Path)
		return append(hdr(4, 4, len(p)), p...)
	case "fwfile":
		return append(hdr(4, 6, 16), n.FileName[:]...)
	case "usb":
		return append(hdr(3, 5, 2), n.Port, n.Iface)
	case "raw":
		b := append(hdr(n.Type, n.Sub, len(n.Body)), n.Body...)
		if n.LenField != 0 {
			binary.LittleEndian.PutUint16(b[2:], n.LenField)
		}
		return b
	}
	panic("unknown node kind " + n.Kind)
}

// End is the end-of-device-path node.
var End = []byte{0x7f, 0xff, 4, 0}

// Option is an EFI_LOAD_OPTION.
type Option struct {
	Attributes   uint32
	Description  string
	Nodes        []Node
	OptionalData []byte
}

// PathList encodes the nodes followed by the end node.
func (o Option) PathList() []byte {
	var b []byte
	for _, n := range o.Nodes {
		b = append(b, n.Encode()...)
	}
	return append(b, End...)
}

// Encode encodes the load option.
func (o Option) Encode() []byte {
	pl := o.PathList()
	b := binary.LittleEndian.AppendUint32(nil, o.Attributes)
	b = binary.LittleEndian.AppendUint16(b, uint16(len(pl)))
	b = append(b, utf16z(o.Description)...)
	b = append(b, pl...)
	return append(b, o.OptionalData...)
}

// HDText is the UEFI text form of a hard drive node (UEFI 2.x 10.6.1.6, as
// printed by edk2 and efibootmgr): HD(Partition,Type,Signature,Start,Size).
func (n Node) HDText() string {
	switch n.SigType {
	case 1:
		return fmt.Sprintf("HD(%d,MBR,0x%08x,0x%x,0x%x)", n.PartNumber, binary.LittleEndian.Uint32(n.Signature[:4]), n.PartStart, n.PartSize)
	case 2:
		return fmt.Sprintf("HD(%d,GPT,%s,0x%x,0x%x)", n.PartNumber, guid.FromWire(n.Signature[:]).Text(), n.PartStart, n.PartSize)
	}
	return fmt.Sprintf("HD(%d,%d,0,0x%x,0x%x)", n.PartNumber, n.SigType, n.PartStart, n.PartSize)
}

// BootName is the name of the Boot#### variable for a boot number.
func BootName(n uint16) string { return fmt.Sprintf("Boot%04X", n) }
