// Package authvar is an independent reference codec for WIN_CERTIFICATE,
// WIN_CERTIFICATE_UEFI_GUID and EFI_VARIABLE_AUTHENTICATION_2 (UEFI 2.x
// sections 8.2.2 and 32.2.4), written from the specification's layout.
package authvar

import (
	"encoding/binary"
	"fmt"

	"verifharness/ref/guid"
)

// PKCS7GUID is EFI_CERT_TYPE_PKCS7_GUID.
var PKCS7GUID = guid.G{D1: 0x4aafd29d, D2: 0x68df, D3: 0x49ee, D4: [8]byte{0x8a, 0xa9, 0x34, 0x7d, 0x37, 0x56, 0x65, 0xa7}}

const (
	Revision2       = 0x0200
	TypePKCS        = 0x0002
	TypeEFIPKCS1_15 = 0x0EF0
	TypeEFIGUID     = 0x0EF1
)

// Time is EFI_TIME.
type Time struct {
	Year                                   uint16
	Month, Day, Hour, Minute, Second, Pad1 uint8
	Nanosecond                             uint32
	TimeZone                               int16
	Daylight, Pad2                         uint8
}

// DecodeTime decodes 16 bytes.
func DecodeTime(b []byte) Time {
	return Time{
		Year: binary.LittleEndian.Uint16(b[0:]), Month: b[2], Day: b[3], Hour: b[4], Minute: b[5], Second: b[6], Pad1: b[7],
		Nanosecond: binary.LittleEndian.Uint32(b[8:]), TimeZone: int16(binary.LittleEndian.Uint16(b[12:])), Daylight: b[14], Pad2: b[15],
	}
}

// Encode encodes 16 bytes.
func (t Time) Encode() []byte {
	b := make([]byte, 16)
	binary.LittleEndian.PutUint16(b[0:], t.Year)
	b[2], b[3], b[4], b[5], b[6], b[7] = t.Month, t.Day, t.Hour, t.Minute, t.Second, t.Pad1
	binary.LittleEndian.PutUint32(b[8:], t.Nanosecond)
	binary.LittleEndian.PutUint16(b[12:], uint16(t.TimeZone))
	b[14], b[15] = t.Daylight, t.Pad2
	return b
}

// WinCert is WIN_CERTIFICATE with its body.
type WinCert struct {
	Length   uint32
	Revision uint16
	Type     uint16
	Body     []byte
}

// EncodeWinCert writes header and body; Length is computed.
func EncodeWinCert(rev, typ uint16, body []byte) []byte {
	b := binary.LittleEndian.AppendUint32(nil, uint32(8+len(body)))
	b = binary.LittleEndian.AppendUint16(b, rev)
	b = binary.LittleEndian.AppendUint16(b, typ)
	return append(b, body...)
}

// DecodeWinCert decodes one WIN_CERTIFICATE from the front of in and returns
// the number of bytes it occupies (dwLength).
func DecodeWinCert(in []byte) (WinCert, int, error) {
	if len(in) < 8 {
		return WinCert{}, 0, fmt.Errorf("%d bytes, less than a WIN_CERTIFICATE header", len(in))
	}
	w := WinCert{Length: binary.LittleEndian.Uint32(in), Revision: binary.LittleEndian.Uint16(in[4:]), Type: binary.LittleEndian.Uint16(in[6:])}
	if w.Length < 8 {
		return w, 0, fmt.Errorf("dwLength %d < 8", w.Length)
	}
	if uint64(w.Length) > uint64(len(in)) {
		return w, 0, fmt.Errorf("dwLength %d exceeds the %d bytes present", w.Length, len(in))
	}
	w.Body = append([]byte{}, in[8:w.Length]...)
	return w, int(w.Length), nil
}

// Auth2 is EFI_VARIABLE_AUTHENTICATION_2.
type Auth2 struct {
	Time     [16]byte
	Length   uint32
	Revision uint16
	Type     uint16
	CertType guid.G
	CertData []byte
}

// EncodeAuth2 writes the descriptor; dwLength is computed (24 + len(certData)).
func EncodeAuth2(ts [16]byte, rev, typ uint16, certType guid.G, certData []byte) []byte {
	b := append([]byte{}, ts[:]...)
	b = binary.LittleEndian.AppendUint32(b, uint32(24+len(certData)))
	b = binary.LittleEndian.AppendUint16(b, rev)
	b = binary.LittleEndian.AppendUint16(b, typ)
	b = append(b, certType.Wire()...)
	return append(b, certData...)
}

// DecodeAuth2 decodes a descriptor from the front of in; consumed = 16 + dwLength.
func DecodeAuth2(in []byte) (Auth2, int, error) {
	if len(in) < 16 {
		return Auth2{}, 0, fmt.Errorf("%d bytes, less than EFI_TIME", len(in))
	}
	var a Auth2
	copy(a.Time[:], in[:16])
	w, n, err := DecodeWinCert(in[16:])
	if err != nil {
		return a, 0, err
	}
	a.Length, a.Revision, a.Type = w.Length, w.Revision, w.Type
	if len(w.Body) < 16 {
		return a, 0, fmt.Errorf("dwLength %d leaves no room for the certificate type GUID", w.Length)
	}
	a.CertType = guid.FromWire(w.Body[:16])
	a.CertData = w.Body[16:]
	return a, 16 + n, nil
}
