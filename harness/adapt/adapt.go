// Package adapt converts between the library's public types and the harness
// reference types.
package adapt

import (
	"fmt"

	"github.com/foxboron/go-uefi/efi/signature"
	"github.com/foxboron/go-uefi/efi/util"

	"verifharness/ref/esl"
	"verifharness/ref/guid"
)

// Lib converts a reference GUID into the library type.
func Lib(g guid.G) util.EFIGUID {
	return util.EFIGUID{Data1: g.D1, Data2: g.D2, Data3: g.D3, Data4: g.D4}
}

// Ref converts a library GUID into the reference type.
func Ref(g util.EFIGUID) guid.G { return guid.G{D1: g.Data1, D2: g.Data2, D3: g.Data3, D4: g.Data4} }

// ListFromLib converts a library list, checking that its redundant size fields
// are consistent with its contents (the EFI_SIGNATURE_LIST equations).
func ListFromLib(l *signature.SignatureList) (esl.List, error) {
	if l == nil {
		return esl.List{}, fmt.Errorf("nil list in database")
	}
	out := esl.List{Type: Ref(l.SignatureType), Size: l.Size, Header: append([]byte{}, l.SignatureHeader...)}
	for _, s := range l.Signatures {
		out.Entries = append(out.Entries, esl.Entry{Owner: Ref(s.Owner), Data: append([]byte{}, s.Data...)})
	}
	if l.HeaderSize != uint32(len(l.SignatureHeader)) {
		return out, fmt.Errorf("HeaderSize field %d but header has %d bytes", l.HeaderSize, len(l.SignatureHeader))
	}
	if want := 28 + uint32(len(l.SignatureHeader)) + uint32(len(l.Signatures))*l.Size; l.ListSize != want {
		return out, fmt.Errorf("ListSize field %d but 28 + %d + %d*%d = %d", l.ListSize, len(l.SignatureHeader), len(l.Signatures), l.Size, want)
	}
	for i, s := range l.Signatures {
		if uint32(len(s.Data))+16 != l.Size {
			return out, fmt.Errorf("entry %d has %d data bytes but SignatureSize is %d", i, len(s.Data), l.Size)
		}
	}
	return out, nil
}

// DBFromLib converts a whole database.
func DBFromLib(db signature.SignatureDatabase) ([]esl.List, error) {
	var out []esl.List
	for i, l := range db {
		rl, err := ListFromLib(l)
		if err != nil {
			return nil, fmt.Errorf("list %d: %w", i, err)
		}
		out = append(out, rl)
	}
	return out, nil
}
