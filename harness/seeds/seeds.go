// Package seeds produces valid PKCS#7 signatures (library-made, harness-made
// in the style of third-party tools, and repository fixtures) that the C02,
// C04, C13, C16 and C19 checks start from.
package seeds

import (
	"crypto"
	"crypto/sha256"
	"crypto/x509"
	encasn1 "encoding/asn1"
	"fmt"
	"sync"
	"time"

	"pgregory.net/rapid"

	"github.com/foxboron/go-uefi/authenticode"
	"github.com/foxboron/go-uefi/pkcs7"

	"verifharness/gen"
	"verifharness/hx"
	"verifharness/ref/cms"
	"verifharness/ref/der"
)

// Seed is a valid signature together with what is known about it.
type Seed struct {
	Kind     string
	Blob     []byte
	Signer   gen.Identity // Key == -1 when the private key is not available (fixtures)
	Content  []byte       // the signed content octets (detached or encapsulated)
	Detached bool
}

// UTCTime encodes a signing time.
func UTCTime(t time.Time) *der.Node {
	return der.Prim(der.TagUTCTime, []byte(t.UTC().Format("060102150405Z")))
}

// smimeCaps is the SMIMECapabilities value OpenSSL emits by default.
func smimeCaps() *der.Node {
	aes := func(last uint64) *der.Node { return der.Seq(der.OID(2, 16, 840, 1, 101, 3, 4, 1, last)) }
	return der.Seq(aes(42), aes(22), aes(2), der.Seq(der.OID(1, 2, 840, 113549, 3, 7)),
		der.Seq(der.OID(1, 2, 840, 113549, 3, 2), der.Prim(der.TagInteger, []byte{0x00, 0x80})),
		der.Seq(der.OID(1, 2, 840, 113549, 3, 2), der.Prim(der.TagInteger, []byte{0x40})),
		der.Seq(der.OID(1, 3, 14, 3, 2, 7)),
		der.Seq(der.OID(1, 2, 840, 113549, 3, 2), der.Prim(der.TagInteger, []byte{0x28})))
}

// EmulOpts selects the shape of an emulated third-party signature.
type EmulOpts struct {
	CMS       bool // openssl cms (version 1/3 rules, OCTET STRING eContent) vs smime (pkcs7)
	Attached  bool
	SMIMECaps bool
	NoCerts   bool
	ExtraAttr int // bits: 1 an unknown attribute with a SEQUENCE value, 2 signingCertificateV2-like, 4 id-aa-msgSigDigest (signed receipt), 8 id-aa-contentHint, 16 id-aa-securityLabel
	Time      time.Time
	NoTime    bool // openssl cms -no_signing_time: no signingTime attribute
	Sorted    bool // attributes in DER SET OF order (what OpenSSL emits)
	// beyond the SHA-256-with-signed-attributes profile (valid CMS, but not what C04 allows to verify and C16 speaks of):
	Hash    crypto.Hash // -md sha384 / sha512 / sha1: digest algorithm, messageDigest and signature all use it (0 = SHA-256)
	NoAttrs bool        // -noattr: no signed attributes, the signature is over the content
	// openssl cms -econtent_type <oid>: another content type; CMS then uses SignedData version 3
	EContentType []uint64
	// octets behind the digest inside the signed messageDigest attribute (the attribute then is not the digest of the content)
	DigestTail []byte
	// -nocerts -certfile other.pem: the certificates field is present but holds only these (not the signer's)
	OnlyCerts [][]byte
}

// Emulate builds a SignedData the way the openssl CLI does (attribute kinds,
// DER-sorted attribute SET, NULL parameters, certificates field), signed with
// the identity's key over content.
func Emulate(id gen.Identity, content []byte, o EmulOpts) ([]byte, error) {
	ctype := cms.OIDData
	if o.EContentType != nil {
		ctype = o.EContentType
	}
	md := cms.Digest(content)
	if o.Hash != 0 {
		h := o.Hash.New()
		h.Write(content)
		md = h.Sum(nil)
	}
	md = append(append([]byte{}, md...), o.DigestTail...)
	attrs := []*der.Node{
		cms.Attr(cms.OIDContentType, der.OID(ctype...)),
		cms.Attr(cms.OIDSigningTime, UTCTime(o.Time)),
		cms.Attr(cms.OIDMessageDigest, der.Octets(md)),
	}
	if o.NoTime {
		attrs = []*der.Node{attrs[0], attrs[2]}
	}
	if o.SMIMECaps {
		attrs = append(attrs, cms.Attr(cms.OIDSMIMECaps, smimeCaps()))
	}
	if o.ExtraAttr&1 != 0 {
		attrs = append(attrs, cms.Attr([]uint64{1, 2, 840, 113549, 1, 9, 16, 2, 47}, der.Seq(der.Seq(der.Seq(der.Octets(cms.Digest(id.Cert.Raw)))))))
	}
	if o.ExtraAttr&2 != 0 {
		attrs = append(attrs, cms.Attr([]uint64{1, 3, 6, 1, 4, 1, 311, 2, 1, 12}, der.Seq()))
	}
	if o.ExtraAttr&4 != 0 { // what `openssl cms -sign_receipt` adds: the digest of the receipt request's signature
		attrs = append(attrs, cms.Attr([]uint64{1, 2, 840, 113549, 1, 9, 16, 2, 5}, der.Octets(cms.Digest(id.Cert.RawSubject))))
	}
	if o.ExtraAttr&8 != 0 {
		attrs = append(attrs, cms.Attr([]uint64{1, 2, 840, 113549, 1, 9, 16, 2, 4}, der.Seq(der.Prim(12, []byte("hint")), der.OID(1, 2, 840, 113549, 1, 7, 1))))
	}
	if o.ExtraAttr&16 != 0 {
		attrs = append(attrs, cms.Attr([]uint64{1, 2, 840, 113549, 1, 9, 16, 2, 2}, der.Set(der.OID(1, 2, 840, 113549, 1, 9, 3), der.SmallInt(3))))
	}
	if o.Sorted {
		attrs = cms.SortSetOf(attrs)
	}
	b := cms.BuildOpts{ContentType: ctype, Attrs: attrs, Outer: true, SDVersion: 1, SIVersion: 1, DigestNull: true, SigAlgNull: true,
		Hash: o.Hash, NoAttrs: o.NoAttrs, Content: content}
	if o.CMS {
		b.DigestNull = false
	}
	if o.EContentType != nil {
		b.SDVersion = 3 // RFC 5652 5.1: version 3 when the encapsulated content type is not id-data
	}
	if o.Attached {
		b.EContent = der.Octets(content)
	}
	if !o.NoCerts {
		b.Certs = [][]byte{id.Cert.Raw}
	}
	if o.OnlyCerts != nil {
		b.Certs = o.OnlyCerts
	}
	return cms.Build(id.Priv(), id.Cert, b)
}

// AddSigner merges the signer of blob b (a signature over the same content, as Emulate makes it) into blob a, the
// way `openssl smime -sign -signer a.pem -signer b.pem` writes two signers into one SignedData: signer infos and
// certificates of both, each SET in DER order.
func AddSigner(a, b []byte) ([]byte, error) {
	pa, err := der.ParseOne(a, der.Options{})
	if err != nil {
		return nil, err
	}
	pb, err := der.ParseOne(b, der.Options{})
	if err != nil {
		return nil, err
	}
	ra, rb := pa.Clone(), pb.Clone()
	sa, err := cms.Locate(ra)
	if err != nil {
		return nil, err
	}
	sb, err := cms.Locate(rb)
	if err != nil {
		return nil, err
	}
	if len(sb.Signers) == 0 {
		return nil, fmt.Errorf("no signer in the second blob")
	}
	sa.SignerSet.Children = cms.SortSetOf(append(sa.SignerSet.Children, sb.Signers[0].Node))
	if sa.Certs != nil && sb.Certs != nil {
		sa.Certs.Opaque, sa.Certs.Children = true, nil
		sa.Certs.Content = append(append([]byte{}, sa.Certs.Value()...), sb.Certs.Value()...)
	}
	return ra.Encode(), nil
}

// SpcContent builds the SpcIndirectDataContent value octets for a digest with the library's encoder.
func SpcContent(digest []byte) ([]byte, error) {
	return authenticode.CreateSpcIndirectDataContent(digest, 5 /* crypto.SHA256 */)
}

var libKinds = []string{"lib_data_detached", "lib_spc", "lib_other_oid", "lib_bare", "emul_smime_detached", "emul_smime_attached", "emul_cms_attached", "emul_unsorted",
	// genuine signatures by the signer's key that are outside the profile C04 allows to verify (reference: reject)
	"emul_noattr_attached", "emul_other_digest", "emul_long_digest_attached"}

// Draw produces a seed: library-made or emulated third-party, with a generated identity.
func Draw(t *rapid.T, id gen.Identity) Seed {
	kind := rapid.SampledFrom(libKinds).Draw(t, "seedkind")
	content := gen.SizedBytes(300, 0, 1, 55, 56, 64).Draw(t, "content")
	if rapid.IntRange(0, 5).Draw(t, "dershaped") == 0 {
		content = gen.DERShaped(t)
	}
	s := Seed{Kind: kind, Signer: id, Content: content}
	var err error
	switch kind {
	case "lib_data_detached":
		s.Detached = true
		s.Blob, err = pkcs7.SignPKCS7(id.Priv(), id.Cert, pkcs7.OIDData, content)
	case "lib_bare":
		s.Detached = true
		var full []byte
		full, err = pkcs7.SignPKCS7(id.Priv(), id.Cert, pkcs7.OIDData, content)
		if err == nil {
			var sd *cms.SD
			sd, err = cms.Parse(full)
			if err == nil {
				s.Blob = sd.Body.RawBytes()
			}
		}
	case "lib_spc":
		d := sha256.Sum256(content)
		var spc []byte
		spc, err = SpcContent(d[:])
		if err == nil {
			s.Content = spc
			s.Blob, err = pkcs7.SignPKCS7(id.Priv(), id.Cert, authenticode.OIDSpcIndirectDataContent, spc)
		}
	case "lib_other_oid":
		// the only caller passes a concatenation of DER elements for non-data types
		var c []byte
		for i := rapid.IntRange(1, 3).Draw(t, "nel"); i > 0; i-- {
			c = append(c, der.Octets(gen.SizedBytes(40, 0, 1).Draw(t, "el")).Encode()...)
		}
		s.Content = c
		oid := encasn1.ObjectIdentifier{1, 3, 6, 1, 4, 1, 311, 2, 1, rapid.IntRange(1, 40000).Draw(t, "arc")}
		s.Blob, err = pkcs7.SignPKCS7(id.Priv(), id.Cert, oid, c)
	default:
		o := EmulOpts{Time: time.Unix(int64(rapid.IntRange(0, 2000000000).Draw(t, "time")), 0), Sorted: kind != "emul_unsorted",
			SMIMECaps: rapid.Bool().Draw(t, "caps"), NoCerts: rapid.IntRange(0, 4).Draw(t, "nocerts") == 0, ExtraAttr: rapid.SampledFrom([]int{0, 1, 2, 3, 4, 8, 16, 5, 12, 31}).Draw(t, "extra")}
		o.Attached = kind == "emul_smime_attached" || kind == "emul_cms_attached" || (kind == "emul_unsorted" && rapid.Bool().Draw(t, "att"))
		o.CMS = kind == "emul_cms_attached"
		switch kind {
		case "emul_noattr_attached":
			o.NoAttrs, o.Attached = true, true
		case "emul_long_digest_attached":
			o.Attached = true
			o.DigestTail = gen.FillBytes(t, rapid.SampledFrom([]int{1, 16, 32}).Draw(t, "tail"))
		case "emul_other_digest":
			o.Hash = rapid.SampledFrom([]crypto.Hash{crypto.SHA512, crypto.SHA384, crypto.SHA1}).Draw(t, "md")
			o.Attached = rapid.Bool().Draw(t, "att2")
			o.CMS = true
		}
		s.Detached = !o.Attached
		s.Blob, err = Emulate(id, content, o)
	}
	if err != nil {
		t.Fatalf("seed %s: %v", kind, err)
	}
	return s
}

// Fixture is a third-party artefact shipped with the repository.
type Fixture struct {
	Name string
	Blob []byte
	Cert *x509.Certificate // the signer's certificate (embedded in the blob)
}

// Fixtures extracts the PKCS#7 blobs of the sbsign / sbvarsign artefacts:
// the detached pk7, the certificate table entries of the signed images and the
// CertData of the .auth descriptors.
func Fixtures() []Fixture {
	fixOnce.Do(func() { fixCache = loadFixtures() })
	return fixCache
}

var (
	fixOnce  sync.Once
	fixCache []Fixture
)

func loadFixtures() []Fixture {
	var out []Fixture
	add := func(name string, blob []byte) {
		sd, err := cms.Parse(blob)
		if err != nil {
			return
		}
		f := Fixture{Name: name, Blob: blob}
		if sd.Certs != nil && len(sd.Certs.Children) > 0 {
			if c, err := x509.ParseCertificate(sd.Certs.Children[0].RawBytes()); err == nil {
				f.Cert = c
			}
		}
		out = append(out, f)
	}
	if b, ok := hx.RepoFile("authenticode/testdata/test.pecoff.pk7"); ok {
		add("test.pecoff.pk7", b)
	}
	if b, ok := hx.RepoFile("pkcs7/testdata/test.signed"); ok {
		add("pkcs7/test.signed", b)
	}
	for _, p := range []string{"authenticode/testdata/test.pecoff.signed", "tests/data/binary/HelloWorld.efi.signed"} {
		b, ok := hx.RepoFile(p)
		if !ok {
			continue
		}
		for i, blob := range TableBlobs(b) {
			add(fmt.Sprintf("%s#%d", p, i), blob)
		}
	}
	for _, p := range []string{"tests/data/signatures/varsign/PK.auth", "tests/data/signatures/varsign/KEK.auth", "tests/data/signatures/varsign/db.auth"} {
		b, ok := hx.RepoFile(p)
		if !ok || len(b) < 40 {
			continue
		}
		n := int(uint32(b[16]) | uint32(b[17])<<8 | uint32(b[18])<<16 | uint32(b[19])<<24)
		if n >= 24 && 16+n <= len(b) {
			add(p, b[40:16+n])
		}
	}
	return out
}
