package seeds

import (
	_ "embed"
	"encoding/hex"
	"encoding/json"
	"sync"
)

//go:embed corpus/openssl.json
var opensslJSON []byte

// CorpusEntry is one committed OpenSSL-made signature.
type CorpusEntry struct {
	Config   string
	Sig      []byte
	Content  []byte
	Cert     []byte
	Key      int
	Detached bool
	NoAttr   bool
}

var (
	corpusOnce sync.Once
	corpus     []CorpusEntry
)

// OpenSSLCorpus returns the committed signatures produced by the openssl CLI
// (smime / cms x detached / -nodetach x -nosmimecap x -nocerts x -cades x receipt request x -noattr).
func OpenSSLCorpus() []CorpusEntry {
	corpusOnce.Do(func() {
		var raw []struct {
			Config, Sig, Content, Cert string
			Key                        int
			Detached, NoAttr           bool
		}
		if json.Unmarshal(opensslJSON, &raw) != nil {
			return
		}
		for _, r := range raw {
			s, _ := hex.DecodeString(r.Sig)
			c, _ := hex.DecodeString(r.Content)
			ce, _ := hex.DecodeString(r.Cert)
			corpus = append(corpus, CorpusEntry{Config: r.Config, Sig: s, Content: c, Cert: ce, Key: r.Key, Detached: r.Detached, NoAttr: r.NoAttr})
		}
	})
	return corpus
}
