package seeds

import (
	"encoding/binary"

	"verifharness/ref/pehash"
)

// TableEntry is one WIN_CERTIFICATE of an attribute certificate table.
type TableEntry struct {
	Offset   int // offset of the entry in the table
	Length   uint32
	Revision uint16
	Type     uint16
	Blob     []byte
}

// ReadTable splits a certificate table into entries (independent of the
// library): dwLength, wRevision, wCertificateType, body, each entry padded to 8 bytes.
// leftover is the number of bytes that could not be attributed to an entry.
func ReadTable(table []byte) (entries []TableEntry, leftover int) {
	off := 0
	for off+8 <= len(table) {
		l := binary.LittleEndian.Uint32(table[off:])
		if l < 8 || uint64(off)+uint64(l) > uint64(len(table)) {
			break
		}
		entries = append(entries, TableEntry{Offset: off, Length: l, Revision: binary.LittleEndian.Uint16(table[off+4:]), Type: binary.LittleEndian.Uint16(table[off+6:]), Blob: table[off+8 : off+int(l)]})
		off += (int(l) + 7) &^ 7
	}
	if off > len(table) {
		off = len(table)
	}
	return entries, len(table) - off
}

// TableBlobs returns the PKCS#7 blobs of a signed image's certificate table.
func TableBlobs(img []byte) [][]byte {
	l, err := pehash.Parse(img)
	if err != nil || l.CertSize == 0 || uint64(l.CertVA)+uint64(l.CertSize) > uint64(len(img)) {
		return nil
	}
	es, _ := ReadTable(img[l.CertVA : l.CertVA+l.CertSize])
	var out [][]byte
	for _, e := range es {
		out = append(out, e.Blob)
	}
	return out
}
