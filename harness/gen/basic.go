// Package gen holds the rapid generators shared by the property checks.
package gen

import (
	"pgregory.net/rapid"

	"verifharness/ref/guid"
)

// edgeByte draws a byte with boundary values favoured.
func edgeByte() *rapid.Generator[byte] {
	return rapid.Custom(func(t *rapid.T) byte {
		switch rapid.IntRange(0, 9).Draw(t, "bk") {
		case 0, 1:
			return 0
		case 2:
			return 0xff
		case 3, 4:
			return byte(rapid.IntRange(1, 15).Draw(t, "lo"))
		default:
			return rapid.Byte().Draw(t, "b")
		}
	})
}

// GUID draws a GUID: uniform bytes mixed with zero bytes, 0xff bytes and bytes
// with a zero high nibble, so that every field gets leading zeros regularly and
// byte order is observable.
func GUID() *rapid.Generator[guid.G] {
	return rapid.Custom(func(t *rapid.T) guid.G {
		var b [16]byte
		switch rapid.IntRange(0, 39).Draw(t, "special") {
		case 0:
			return guid.G{} // the all-zero GUID
		case 1:
			for i := range b {
				b[i] = 0xff
			}
			return guid.FromBE(b[:])
		}
		if rapid.Bool().Draw(t, "uniform") {
			for i := range b {
				b[i] = rapid.Byte().Draw(t, "b")
			}
		} else {
			for i := range b {
				b[i] = edgeByte().Draw(t, "e")
			}
		}
		return guid.FromBE(b[:])
	})
}

// Bytes draws a byte string with a length in [min, max].
func Bytes(min, max int) *rapid.Generator[[]byte] {
	return rapid.SliceOfN(rapid.Byte(), min, max)
}

// SizedBytes draws a byte string whose length is first drawn from the given
// favoured sizes (half of the time) or uniformly from [0, max].
func SizedBytes(max int, favoured ...int) *rapid.Generator[[]byte] {
	return rapid.Custom(func(t *rapid.T) []byte {
		n := 0
		if len(favoured) > 0 && rapid.Bool().Draw(t, "fav") {
			n = rapid.SampledFrom(favoured).Draw(t, "n")
		} else {
			n = rapid.IntRange(0, max).Draw(t, "n")
		}
		if n > max {
			n = max
		}
		return FillBytes(t, n)
	})
}

// FillBytes draws n bytes cheaply: a drawn 8-byte seed expanded by a
// xorshift generator (all randomness still comes from rapid draws), so that
// large buffers do not cost one draw per byte.
func FillBytes(t *rapid.T, n int) []byte {
	if n <= 16 {
		return rapid.SliceOfN(rapid.Byte(), n, n).Draw(t, "bytes")
	}
	s := rapid.Uint64().Draw(t, "fillseed") | 1
	out := make([]byte, n)
	for i := range out {
		s ^= s << 13
		s ^= s >> 7
		s ^= s << 17
		out[i] = byte(s >> 24)
	}
	return out
}

// UnicodeString draws a valid, NUL-free Unicode string: ASCII, BMP and
// supplementary-plane runes (surrogate pairs in UTF-16), including U+FEFF and
// U+FFFD, never U+0000 and never a surrogate code point.
func UnicodeString(maxRunes int) *rapid.Generator[string] {
	return rapid.Custom(func(t *rapid.T) string {
		n := 0
		switch rapid.IntRange(0, 9).Draw(t, "lenclass") {
		case 0:
			n = 0
		case 1, 2, 3, 4, 5:
			n = rapid.IntRange(1, 12).Draw(t, "n")
		case 6, 7, 8:
			n = rapid.IntRange(1, 200).Draw(t, "n")
		default:
			n = rapid.IntRange(1, maxRunes).Draw(t, "n")
		}
		rs := make([]rune, n)
		style := rapid.IntRange(0, 3).Draw(t, "style")
		for i := range rs {
			rs[i] = drawRune(t, style)
		}
		return string(rs)
	})
}

func drawRune(t *rapid.T, style int) rune {
	k := rapid.IntRange(0, 9).Draw(t, "rk")
	if style == 0 {
		k = 0
	}
	switch {
	case k <= 4:
		return rune(rapid.IntRange(0x20, 0x7e).Draw(t, "ascii"))
	case k == 5:
		return rune(rapid.IntRange(1, 0x1f).Draw(t, "ctl"))
	case k == 6:
		return rapid.SampledFrom([]rune{0xfeff, 0xfffd, 0xfffe, 0xffff, 0xd7ff, 0xe000, 0x100, 0xff, 0x80, 0x10000, 0x10ffff}).Draw(t, "edge")
	case k == 7 || k == 8:
		r := rune(rapid.IntRange(0x80, 0xffff).Draw(t, "bmp"))
		if r >= 0xd800 && r <= 0xdfff {
			r = 0xe9
		}
		return r
	default:
		return rune(rapid.IntRange(0x10000, 0x10ffff).Draw(t, "astral"))
	}
}

// Chance is true with probability num/den. rapid's integer generators favour
// small and boundary values, so a plain "IntRange(0, n) == 0" fires far more
// often than 1/(n+1); here the drawn value is mixed first. It shrinks to false.
func Chance(t *rapid.T, label string, num, den uint64) bool {
	v := rapid.Uint64().Draw(t, label)
	x := (v * 0x9E3779B97F4A7C15) >> 17
	return x%den >= den-num && v != 0
}

// DERShaped draws content that is itself exactly one well-formed DER element
// (a signed certificate file, a small SEQUENCE, an OCTET STRING): verifiers
// must hash it as opaque octets.
func DERShaped(t *rapid.T) []byte {
	body := SizedBytes(120, 0, 1, 2, 3).Draw(t, "derbody")
	tag := rapid.SampledFrom([]byte{0x30, 0x04, 0x31, 0x02, 0x0c, 0xa0}).Draw(t, "dertag")
	out := []byte{tag}
	if len(body) < 128 {
		out = append(out, byte(len(body)))
	} else {
		out = append(out, 0x81, byte(len(body)))
	}
	return append(out, body...)
}
