// Package gen holds the rapid generators shared by the property checks.
package gen

import (
	"pgregory.net/rapid"

	"verifharness/ref/guid"
)

// edgeByte draws a byte with boundary values favoured.
func edgeByte() *rapid.Generator[byte] {
	return rapid.Custom(func(t *rapid.T) byte {
		switch rapid.IntRange(0, 9).Draw(t, "bk") {
		case 0, 1:
			return 0
		case 2:
			return 0xff
		case 3, 4:
			return byte(rapid.IntRange(1, 15).Draw(t, "lo"))
		default:
			return rapid.Byte().Draw(t, "b")
		}
	})
}

// WellKnownGUIDs are GUIDs the UEFI formats give a meaning to.
var WellKnownGUIDs = []guid.G{
	{D1: 0x4aafd29d, D2: 0x68df, D3: 0x49ee, D4: [8]byte{0x8a, 0xa9, 0x34, 0x7d, 0x37, 0x56, 0x65, 0xa7}}, // EFI_CERT_TYPE_PKCS7_GUID
	{D1: 0xa7717414, D2: 0xc616, D3: 0x4977, D4: [8]byte{0x94, 0x20, 0x84, 0x47, 0x12, 0xa7, 0x35, 0xbf}}, // EFI_CERT_TYPE_RSA2048_SHA256_GUID
	{D1: 0xa5c059a1, D2: 0x94e4, D3: 0x4aa7, D4: [8]byte{0x87, 0xb5, 0xab, 0x15, 0x5c, 0x2b, 0xf0, 0x72}}, // EFI_CERT_X509_GUID
	{D1: 0xc1c41626, D2: 0x504c, D3: 0x4092, D4: [8]byte{0xac, 0xa9, 0x41, 0xf9, 0x36, 0x93, 0x43, 0x28}}, // EFI_CERT_SHA256_GUID
	{D1: 0xff3e5307, D2: 0x9fd0, D3: 0x48c9, D4: [8]byte{0x85, 0xf1, 0x8a, 0xd5, 0x6c, 0x70, 0x1e, 0x01}}, // EFI_CERT_SHA384_GUID
	{D1: 0x8be4df61, D2: 0x93ca, D3: 0x11d2, D4: [8]byte{0xaa, 0x0d, 0x00, 0xe0, 0x98, 0x03, 0x2b, 0x8c}}, // EFI_GLOBAL_VARIABLE
	{D1: 0xd719b2cb, D2: 0x3d3a, D3: 0x4596, D4: [8]byte{0xa3, 0xbc, 0xda, 0xd0, 0x0e, 0x67, 0x65, 0x6f}}, // EFI_IMAGE_SECURITY_DATABASE_GUID
}

// GUID draws a GUID: uniform bytes mixed with zero bytes, 0xff bytes and bytes
// with a zero high nibble, so that every field gets leading zeros regularly and
// byte order is observable.
func GUID() *rapid.Generator[guid.G] {
	return rapid.Custom(func(t *rapid.T) guid.G {
		var b [16]byte
		switch rapid.IntRange(0, 39).Draw(t, "special") {
		case 0:
			return guid.G{} // the all-zero GUID
		case 1:
			for i := range b {
				b[i] = 0xff
			}
			return guid.FromBE(b[:])
		case 2, 3:
			// a GUID the formats give a meaning to, or a near relative of one: the same 16 octets read in the other byte
			// order (what a big-endian tool writes for it), one bit apart, fields shifted
			k := rapid.SampledFrom(WellKnownGUIDs).Draw(t, "wellknown")
			switch rapid.IntRange(0, 3).Draw(t, "relative") {
			case 0:
				return k
			case 1:
				return guid.FromWire(k.BE())
			case 2:
				w := k.BE()
				w[rapid.IntRange(0, 15).Draw(t, "octet")] ^= byte(1 << uint(rapid.IntRange(0, 7).Draw(t, "bit")))
				return guid.FromBE(w)
			default:
				w := k.BE()
				return guid.FromBE(append(w[1:], w[0]))
			}
		}
		if rapid.Bool().Draw(t, "uniform") {
			for i := range b {
				b[i] = rapid.Byte().Draw(t, "b")
			}
		} else {
			for i := range b {
				b[i] = edgeByte().Draw(t, "e")
			}
		}
		return guid.FromBE(b[:])
	})
}

// Bytes draws a byte string with a length in [min, max].
func Bytes(min, max int) *rapid.Generator[[]byte] {
	return rapid.SliceOfN(rapid.Byte(), min, max)
}

// SizedBytes draws a byte string whose length is first drawn from the given
// favoured sizes (half of the time) or uniformly from [0, max].
func SizedBytes(max int, favoured ...int) *rapid.Generator[[]byte] {
	return rapid.Custom(func(t *rapid.T) []byte {
		n := 0
		if len(favoured) > 0 && rapid.Bool().Draw(t, "fav") {
			n = rapid.SampledFrom(favoured).Draw(t, "n")
		} else {
			n = rapid.IntRange(0, max).Draw(t, "n")
		}
		if n > max {
			n = max
		}
		return FillBytes(t, n)
	})
}

// FillBytes draws n bytes cheaply: a drawn 8-byte seed expanded by a
// xorshift generator (all randomness still comes from rapid draws), so that
// large buffers do not cost one draw per byte.
func FillBytes(t *rapid.T, n int) []byte {
	if n <= 16 {
		return rapid.SliceOfN(rapid.Byte(), n, n).Draw(t, "bytes")
	}
	s := rapid.Uint64().Draw(t, "fillseed") | 1
	out := make([]byte, n)
	for i := range out {
		s ^= s << 13
		s ^= s >> 7
		s ^= s << 17
		out[i] = byte(s >> 24)
	}
	return out
}

// UnicodeString draws a valid, NUL-free Unicode string: ASCII, BMP and
// supplementary-plane runes (surrogate pairs in UTF-16), including U+FEFF and
// U+FFFD, never U+0000 and never a surrogate code point.
func UnicodeString(maxRunes int) *rapid.Generator[string] {
	return rapid.Custom(func(t *rapid.T) string {
		n := 0
		switch rapid.IntRange(0, 9).Draw(t, "lenclass") {
		case 0:
			n = 0
		case 1, 2, 3, 4, 5:
			n = rapid.IntRange(1, 12).Draw(t, "n")
		case 6, 7, 8:
			n = rapid.IntRange(1, 200).Draw(t, "n")
		default:
			n = rapid.IntRange(1, maxRunes).Draw(t, "n")
		}
		rs := make([]rune, n)
		style := rapid.IntRange(0, 3).Draw(t, "style")
		for i := range rs {
			rs[i] = drawRune(t, style)
		}
		return string(rs)
	})
}

func drawRune(t *rapid.T, style int) rune {
	k := rapid.IntRange(0, 9).Draw(t, "rk")
	if style == 0 {
		k = 0
	}
	switch {
	case k <= 4:
		return rune(rapid.IntRange(0x20, 0x7e).Draw(t, "ascii"))
	case k == 5:
		return rune(rapid.IntRange(1, 0x1f).Draw(t, "ctl"))
	case k == 6:
		return rapid.SampledFrom([]rune{0xfeff, 0xfffd, 0xfffe, 0xffff, 0xd7ff, 0xe000, 0x100, 0xff, 0x80, 0x10000, 0x10ffff}).Draw(t, "edge")
	case k == 7 || k == 8:
		r := rune(rapid.IntRange(0x80, 0xffff).Draw(t, "bmp"))
		if r >= 0xd800 && r <= 0xdfff {
			r = 0xe9
		}
		return r
	default:
		return rune(rapid.IntRange(0x10000, 0x10ffff).Draw(t, "astral"))
	}
}

// Chance is true with probability num/den. rapid's integer generators favour
// small and boundary values, so a plain "IntRange(0, n) == 0" fires far more
// often than 1/(n+1); here the drawn value is mixed first. It shrinks to false.
func Chance(t *rapid.T, label string, num, den uint64) bool {
	v := rapid.Uint64().Draw(t, label)
	x := (v * 0x9E3779B97F4A7C15) >> 17
	return x%den >= den-num && v != 0
}

// DERShaped draws content that is itself exactly one well-formed DER element
// (a signed certificate file, a small SEQUENCE, an OCTET STRING): verifiers
// must hash it as opaque octets.
func DERShaped(t *rapid.T) []byte {
	body := SizedBytes(120, 0, 1, 2, 3).Draw(t, "derbody")
	tag := rapid.SampledFrom([]byte{0x30, 0x04, 0x31, 0x02, 0x0c, 0xa0}).Draw(t, "dertag")
	out := []byte{tag}
	if len(body) < 128 {
		out = append(out, byte(len(body)))
	} else {
		out = append(out, 0x81, byte(len(body)))
	}
	return append(out, body...)
}
