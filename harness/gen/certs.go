package gen

import (
	"crypto/ecdsa"
	"crypto/ed25519"
	"crypto/elliptic"
	"crypto/rand"
	"crypto/rsa"
	"crypto/x509"
	"crypto/x509/pkix"
	"embed"
	"encoding/asn1"
	"encoding/pem"
	"fmt"
	"math/big"
	"sort"
	"sync"
	"time"

	"pgregory.net/rapid"
)

//go:embed keys/*.pem
var keyFS embed.FS

var (
	keyOnce sync.Once
	keys    []*rsa.PrivateKey
)

// Keys returns the committed throw-away RSA key pool (4 x 2048, 2 x 3072, 2 x 4096 bits,
// and a 2047- and a 3071-bit key whose modulus length is not a multiple of 8).
func Keys() []*rsa.PrivateKey {
	keyOnce.Do(func() {
		ents, err := keyFS.ReadDir("keys")
		if err != nil {
			panic(err)
		}
		var names []string
		for _, e := range ents {
			names = append(names, e.Name())
		}
		sort.Strings(names)
		for _, n := range names {
			b, _ := keyFS.ReadFile("keys/" + n)
			blk, _ := pem.Decode(b)
			k, err := x509.ParsePKCS8PrivateKey(blk.Bytes)
			if err != nil {
				panic(fmt.Sprintf("key pool %s: %v", n, err))
			}
			keys = append(keys, k.(*rsa.PrivateKey))
		}
	})
	return keys
}

// Identity is a certificate with the index of its private key in the pool.
type Identity struct {
	Key  int
	Cert *x509.Certificate
}

// Priv returns the private key.
func (i Identity) Priv() *rsa.PrivateKey { return Keys()[i.Key] }

// KeyIndex draws a key index; small keys are favoured when cheap is set.
func KeyIndex(cheap bool) *rapid.Generator[int] {
	if cheap {
		return rapid.SampledFrom([]int{0, 1, 2, 3, 0, 1, 2, 3, 0, 1, 4, 6, 8})
	}
	return rapid.SampledFrom([]int{0, 1, 2, 3, 4, 5, 6, 7, 8, 9})
}

// Serial draws a positive serial number of 1..20 bytes with boundary patterns
// (high bit set, leading-zero-after-encoding edge cases, all 0xff, 0x7f..).
func Serial() *rapid.Generator[*big.Int] {
	return rapid.Custom(func(t *rapid.T) *big.Int {
		n := rapid.IntRange(1, 20).Draw(t, "serlen")
		b := make([]byte, n)
		switch rapid.IntRange(0, 6).Draw(t, "serpat") {
		case 0:
			for i := range b {
				b[i] = 0xff
			}
		case 1:
			b[0] = 0x80
		case 2:
			b[0] = 0x7f
			for i := 1; i < n; i++ {
				b[i] = 0xff
			}
		case 3:
			b[0] = 0x00
			if n > 1 {
				b[1] = 0xff
			}
			b[n-1] |= 1
		case 4:
			b[n-1] = byte(rapid.IntRange(1, 255).Draw(t, "small"))
		default:
			for i := range b {
				b[i] = rapid.Byte().Draw(t, "sb")
			}
		}
		v := new(big.Int).SetBytes(b)
		if v.Sign() == 0 {
			v.SetInt64(1)
		}
		return v
	})
}

var nameAlphabet = []rune("abcdefghijklmnopqrstuvwxyzABCDEFGHIJKLMNOPQRSTUVWXYZ0123456789 -.")

func nameString(t *rapid.T, label string) string {
	n := rapid.IntRange(1, 24).Draw(t, label+"len")
	if rapid.IntRange(0, 9).Draw(t, label+"long") == 0 {
		n = 200
	}
	rs := make([]rune, n)
	for i := range rs {
		rs[i] = nameAlphabet[rapid.IntRange(0, len(nameAlphabet)-1).Draw(t, "c")]
	}
	if rapid.IntRange(0, 5).Draw(t, label+"utf8") == 0 {
		rs[0] = 'é' // forces a UTF8String
	}
	return string(rs)
}

// Name draws a distinguished name with 1..4 RDNs, sometimes multi-valued and long.
func Name() *rapid.Generator[pkix.Name] {
	return rapid.Custom(func(t *rapid.T) pkix.Name {
		var n pkix.Name
		k := rapid.IntRange(1, 4).Draw(t, "rdns")
		n.CommonName = nameString(t, "cn")
		if k >= 2 {
			n.Organization = []string{nameString(t, "o")}
			if rapid.IntRange(0, 3).Draw(t, "multi") == 0 {
				n.Organization = append(n.Organization, nameString(t, "o2")) // multi-valued RDN
			}
		}
		if k >= 3 {
			n.Country = []string{rapid.SampledFrom([]string{"NO", "US", "DE", "TEST STRING"}).Draw(t, "c")}
		}
		if k >= 4 {
			n.ExtraNames = []pkix.AttributeTypeAndValue{{Type: asn1.ObjectIdentifier{2, 5, 4, 11}, Value: nameString(t, "ou")}}
		}
		return n
	})
}

// issuer describes who issues a certificate: nil = self-signed.
type issuer struct {
	Key        int    // pool key that signs the certificate
	RawSubject []byte // the issuer's name exactly as it must appear in the issued certificate (nil: encode Name)
	Name       pkix.Name
}

func makeCertFull(key int, subject pkix.Name, rawSubject []byte, serial *big.Int, iss *issuer) (*x509.Certificate, error) {
	now := time.Now().UTC().Truncate(time.Hour)
	tpl := &x509.Certificate{
		SerialNumber: serial,
		Subject:      subject,
		RawSubject:   rawSubject,
		NotBefore:    now.Add(-48 * time.Hour),
		NotAfter:     now.Add(10 * 365 * 24 * time.Hour),
		// the keyUsage extension varies with the serial number too: digitalSignature, absent, a CA-style usage without
		// digitalSignature, several bits (whether a certificate *may* sign is policy of the relying party; it does not
		// change whose key made a signature)
		KeyUsage: []x509.KeyUsage{x509.KeyUsageDigitalSignature, 0, x509.KeyUsageCertSign | x509.KeyUsageCRLSign,
			x509.KeyUsageDigitalSignature | x509.KeyUsageContentCommitment}[serial.Bit(3)+2*serial.Bit(4)],
		PublicKeyAlgorithm: x509.RSA,
		// how the certificate itself is signed varies with the serial number (it must not matter to anything)
		SignatureAlgorithm: []x509.SignatureAlgorithm{x509.SHA256WithRSA, x509.SHA256WithRSA, x509.SHA384WithRSA, x509.SHA512WithRSA,
			x509.SHA256WithRSAPSS, x509.SHA256WithRSA, x509.SHA384WithRSAPSS, x509.SHA256WithRSAPSS}[serial.Bit(0)+2*serial.Bit(1)+4*serial.Bit(2)],
	}
	k := Keys()[key]
	return finishCert(tpl, &k.PublicKey, k, iss)
}

func finishCert(tpl *x509.Certificate, pub any, selfKey *rsa.PrivateKey, iss *issuer) (*x509.Certificate, error) {
	parent, signKey := tpl, selfKey
	if iss != nil {
		parent = &x509.Certificate{Subject: iss.Name, RawSubject: iss.RawSubject}
		signKey = Keys()[iss.Key]
	}
	der, err := x509.CreateCertificate(rand.Reader, tpl, parent, pub, signKey)
	if err != nil {
		return nil, err
	}
	return x509.ParseCertificate(der)
}

var (
	alienOnce sync.Once
	alienPubs []any
)

// AlienTwin returns a certificate with the same issuer and serial as id whose subject key is not an RSA key at
// all (kind 0: Ed25519, 1: ECDSA P-256, 2: ECDSA P-384). Nothing signed by id's key is valid under it.
func AlienTwin(id Identity, kind int) (cert *x509.Certificate, err error) {
	alienOnce.Do(func() {
		seed := make([]byte, ed25519.SeedSize)
		copy(seed, "verif alien twin key")
		alienPubs = append(alienPubs, ed25519.NewKeyFromSeed(seed).Public())
		for _, c := range []elliptic.Curve{elliptic.P256(), elliptic.P384()} {
			k, err := ecdsa.GenerateKey(c, rand.Reader)
			if err != nil {
				panic(err)
			}
			alienPubs = append(alienPubs, &k.PublicKey)
		}
	})
	kind = ((kind % len(alienPubs)) + len(alienPubs)) % len(alienPubs)
	ck := fmt.Sprintf("alien%d/%x", kind, id.Cert.Raw)
	twinMu.Lock()
	if tw, ok := twinCache[ck]; ok {
		twinMu.Unlock()
		return tw.Cert, nil
	}
	twinMu.Unlock()
	defer func() {
		if cert != nil {
			twinMu.Lock()
			if len(twinCache) < 512 {
				twinCache[ck] = Identity{Key: -1, Cert: cert}
			}
			twinMu.Unlock()
		}
	}()
	now := time.Now().UTC().Truncate(time.Hour)
	tpl := &x509.Certificate{
		SerialNumber:       id.Cert.SerialNumber,
		Subject:            id.Cert.Subject,
		RawSubject:         id.Cert.RawSubject,
		NotBefore:          now.Add(-48 * time.Hour),
		NotAfter:           now.Add(10 * 365 * 24 * time.Hour),
		KeyUsage:           x509.KeyUsageDigitalSignature,
		SignatureAlgorithm: x509.SHA256WithRSA,
	}
	return finishCert(tpl, alienPubs[kind], nil, &issuer{Key: 0, Name: id.Cert.Issuer, RawSubject: id.Cert.RawIssuer})
}

func makeCert(key int, subject pkix.Name, serial *big.Int) (*x509.Certificate, error) {
	return makeCertFull(key, subject, nil, serial, nil)
}

// Ident draws a certificate on a pool key with a generated name and serial:
// self-signed, or (one time in three) issued by a CA with another generated
// name on another pool key, so that issuer and subject differ.
func Ident(cheap bool) *rapid.Generator[Identity] {
	return rapid.Custom(func(t *rapid.T) Identity {
		key := KeyIndex(cheap).Draw(t, "key")
		var iss *issuer
		if rapid.IntRange(0, 2).Draw(t, "ca_issued") == 0 {
			iss = &issuer{Key: KeyIndex(true).Draw(t, "cakey"), Name: Name().Draw(t, "caname")}
		}
		c, err := makeCertFull(key, Name().Draw(t, "name"), nil, Serial().Draw(t, "serial"), iss)
		if err != nil {
			t.Fatalf("certificate generation failed: %v", err)
		}
		return Identity{Key: key, Cert: c}
	})
}

// Twin returns a certificate with the same issuer and serial as id but on another pool key.
func Twin(id Identity, otherKey int) (Identity, error) {
	if otherKey == id.Key {
		otherKey = (id.Key + 1) % len(Keys())
	}
	ck := fmt.Sprintf("%d/%x", otherKey, id.Cert.Raw)
	twinMu.Lock()
	if tw, ok := twinCache[ck]; ok {
		twinMu.Unlock()
		return tw, nil
	}
	twinMu.Unlock()
	// same issuer name (byte for byte) and serial, another subject key
	c, err := makeCertFull(otherKey, id.Cert.Subject, id.Cert.RawSubject, id.Cert.SerialNumber, &issuer{Key: otherKey, Name: id.Cert.Issuer, RawSubject: id.Cert.RawIssuer})
	if err != nil {
		return Identity{}, err
	}
	tw := Identity{Key: otherKey, Cert: c}
	twinMu.Lock()
	if len(twinCache) < 512 {
		twinCache[ck] = tw
	}
	twinMu.Unlock()
	return tw, nil
}

var (
	twinMu    sync.Mutex
	twinCache = map[string]Identity{}
)

var (
	fixedOnce sync.Once
	fixedIDs  []Identity
)

// FixedIdents is a small set of identities created once per process (one per
// pool key, simple names), for checks where certificate variety does not matter.
func FixedIdents() []Identity {
	fixedOnce.Do(func() {
		for i := range Keys() {
			// odd identities are issued by a CA (issuer name differs from the subject name), even ones are self-signed
			var iss *issuer
			if i%2 == 1 {
				iss = &issuer{Key: (i + 3) % len(Keys()), Name: pkix.Name{CommonName: "verif fixed CA", Organization: []string{"verif", "issuing"}, Country: []string{"NO"}}}
			}
			c, err := makeCertFull(i, pkix.Name{CommonName: fmt.Sprintf("verif fixed identity %d", i), Organization: []string{"verif"}}, nil, big.NewInt(int64(0x1000+i+8*(i%4))), iss)
			if err != nil {
				panic(err)
			}
			fixedIDs = append(fixedIDs, Identity{Key: i, Cert: c})
		}
	})
	return fixedIDs
}

// ParseIdent rebuilds an identity from a case file (key index + certificate DER).
func ParseIdent(key int, der []byte) (Identity, error) {
	if key < 0 || key >= len(Keys()) {
		return Identity{}, fmt.Errorf("key index %d outside the pool", key)
	}
	c, err := x509.ParseCertificate(der)
	if err != nil {
		return Identity{}, err
	}
	return Identity{Key: key, Cert: c}, nil
}

// Sibling returns a certificate on the same key and with the same name as id but another serial number.
func Sibling(id Identity) (Identity, error) {
	k := id.Key
	if k < 0 {
		return Identity{}, fmt.Errorf("no private key")
	}
	c, err := makeCertFull(k, id.Cert.Subject, id.Cert.RawSubject, new(big.Int).Add(id.Cert.SerialNumber, big.NewInt(1)), &issuer{Key: k, Name: id.Cert.Issuer, RawSubject: id.Cert.RawIssuer})
	if err != nil {
		return Identity{}, err
	}
	return Identity{Key: k, Cert: c}, nil
}

// WithValidity returns an identity on the same key with the same names and serial whose certificate is expired
// (kind 1: valid from three years ago to one year ago) or not yet valid (kind 2: valid from next year on). Whether a
// relying party accepts such a certificate is its policy; what a key has signed, and when, does not depend on it.
func WithValidity(id Identity, kind int) (Identity, error) {
	if id.Key < 0 {
		return id, fmt.Errorf("no private key")
	}
	now := time.Now().UTC().Truncate(time.Hour)
	nb, na := now.Add(-3*365*24*time.Hour), now.Add(-365*24*time.Hour)
	if kind == 2 {
		nb, na = now.Add(365*24*time.Hour), now.Add(3*365*24*time.Hour)
	}
	tpl := &x509.Certificate{
		SerialNumber:       id.Cert.SerialNumber,
		Subject:            id.Cert.Subject,
		RawSubject:         id.Cert.RawSubject,
		NotBefore:          nb,
		NotAfter:           na,
		KeyUsage:           x509.KeyUsageDigitalSignature,
		SignatureAlgorithm: x509.SHA256WithRSA,
	}
	k := Keys()[id.Key]
	c, err := finishCert(tpl, &k.PublicKey, k, &issuer{Key: id.Key, Name: id.Cert.Issuer, RawSubject: id.Cert.RawIssuer})
	if err != nil {
		return id, err
	}
	return Identity{Key: id.Key, Cert: c}, nil
}

// WithBigExtension returns an identity on the same key with the same names and serial whose certificate carries a
// non-critical private extension of n bytes (certificates with embedded logos, SCT lists or vendor blobs get large;
// from about 64 KiB on, the DER lengths of everything that contains the certificate need three length octets).
func WithBigExtension(id Identity, n int) (Identity, error) {
	if id.Key < 0 {
		return id, fmt.Errorf("no private key")
	}
	now := time.Now().UTC().Truncate(time.Hour)
	val := make([]byte, n)
	for i := range val {
		val[i] = byte(i*7 + i>>8)
	}
	tpl := &x509.Certificate{
		SerialNumber:       id.Cert.SerialNumber,
		Subject:            id.Cert.Subject,
		RawSubject:         id.Cert.RawSubject,
		NotBefore:          now.Add(-48 * time.Hour),
		NotAfter:           now.Add(10 * 365 * 24 * time.Hour),
		KeyUsage:           x509.KeyUsageDigitalSignature,
		SignatureAlgorithm: x509.SHA256WithRSA,
		ExtraExtensions:    []pkix.Extension{{Id: asn1.ObjectIdentifier{1, 3, 6, 1, 4, 1, 55555, 1, 1}, Value: val}},
	}
	k := Keys()[id.Key]
	c, err := finishCert(tpl, &k.PublicKey, k, &issuer{Key: id.Key, Name: id.Cert.Issuer, RawSubject: id.Cert.RawIssuer})
	if err != nil {
		return id, err
	}
	return Identity{Key: id.Key, Cert: c}, nil
}
