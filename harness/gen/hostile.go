package gen

import (
	"bytes"
	"encoding/binary"
	"fmt"

	"pgregory.net/rapid"

	"verifharness/ref/cms"
	"verifharness/ref/der"
	"verifharness/ref/pehash"
)

type field struct {
	name  string
	off   int
	width int
}

func hostileValue(t *rapid.T, cur uint64, fileLen int, width int) uint64 {
	c := []uint64{0, 1, 2, 7, 8, 9, cur - 1, cur + 1, cur - 8, cur + 8, cur * 2, uint64(fileLen) - 1, uint64(fileLen), uint64(fileLen) + 1,
		0x7f, 0x80, 0xff, 0x7fff, 0x8000, 0xffff, 0x7fffffff, 0x80000000, 0xffffffff, 0xfffffff8, 0xfffffff0, 0xffffff00}
	v := rapid.SampledFrom(c).Draw(t, "hostile")
	if rapid.IntRange(0, 5).Draw(t, "anyv") == 0 {
		v = rapid.Uint64().Draw(t, "v")
	}
	if width < 8 {
		v &= 1<<(8*uint(width)) - 1
	}
	return v
}

func put(b []byte, off, width int, v uint64) {
	if off < 0 || off+width > len(b) {
		return
	}
	switch width {
	case 1:
		b[off] = byte(v)
	case 2:
		binary.LittleEndian.PutUint16(b[off:], uint16(v))
	case 4:
		binary.LittleEndian.PutUint32(b[off:], uint32(v))
	case 8:
		binary.LittleEndian.PutUint64(b[off:], v)
	}
}

func get(b []byte, off, width int) uint64 {
	if off < 0 || off+width > len(b) {
		return 0
	}
	switch width {
	case 1:
		return uint64(b[off])
	case 2:
		return uint64(binary.LittleEndian.Uint16(b[off:]))
	case 4:
		return uint64(binary.LittleEndian.Uint32(b[off:]))
	}
	return binary.LittleEndian.Uint64(b[off:])
}

// peFields lists the header fields the C13 statement names, for a parsable base image.
func peFields(img []byte) ([]field, []int) {
	l, err := pehash.Parse(img)
	if err != nil {
		return []field{{"e_lfanew", 0x3c, 4}}, []int{0, 2, 64, 96, len(img) / 2, len(img) - 1}
	}
	coff := l.Lfanew + 4
	nOff := l.OptOff + 108
	if l.PE32 {
		nOff = l.OptOff + 92
	}
	fs := []field{
		{"e_lfanew", 0x3c, 4}, {"Machine", coff, 2}, {"NumberOfSections", coff + 2, 2}, {"PointerToSymbolTable", coff + 8, 4}, {"NumberOfSymbols", coff + 12, 4},
		{"SizeOfOptionalHeader", coff + 16, 2}, {"Magic", l.OptOff, 2}, {"SizeOfHeaders", l.OptOff + 60, 4}, {"NumberOfRvaAndSizes", nOff, 4},
		{"CertTable.VirtualAddress", l.DD4Off, 4}, {"CertTable.Size", l.DD4Off + 4, 4},
	}
	cuts := []int{0, 1, 2, 63, 64, 95, 96, 97, l.Lfanew, l.Lfanew + 4, l.Lfanew + 23, l.OptOff, l.OptOff + 2, l.CksumOff, l.DD4Off, l.DD4Off + 4, l.DD4Off + 8, l.SecTableOff, l.HeadersEnd(), int(l.SizeOfHeaders), len(img) - 1}
	for i, s := range l.Sections {
		h := l.SecTableOff + 40*i
		fs = append(fs, field{"Section.VirtualSize", h + 8, 4}, field{"Section.SizeOfRawData", h + 16, 4}, field{"Section.PointerToRawData", h + 20, 4}, field{"Section.Name", h, 1})
		cuts = append(cuts, h, h+20, h+40, int(s.Ptr), int(s.Ptr)+int(s.Size))
	}
	// (all comparisons of header values are done in 64 bits: int is 32 bits wide in the GOARCH=386 shards)
	if l.CertSize != 0 && uint64(l.CertVA)+8 <= uint64(len(img)) {
		off := int(l.CertVA)
		for off+8 <= len(img) {
			fs = append(fs, field{"WIN_CERTIFICATE.dwLength", off, 4}, field{"WIN_CERTIFICATE.wRevision", off + 4, 2}, field{"WIN_CERTIFICATE.wCertificateType", off + 6, 2})
			cuts = append(cuts, off, off+4, off+8, off+9)
			n64 := uint64(binary.LittleEndian.Uint32(img[off:]))
			if n64 < 8 || n64 > uint64(len(img)) {
				break
			}
			n := int(n64)
			off += (n + 7) &^ 7
		}
		cuts = append(cuts, int(l.CertVA), int(l.CertVA)+8)
	}
	var inside []int
	for _, c := range cuts {
		if c >= 0 && c <= len(img) {
			inside = append(inside, c)
		}
	}
	return fs, inside
}

// HostilePE derives a hostile input from a valid image: named header fields set
// to hostile constants, truncation at structural boundaries, overlapping
// sections, byte noise. It returns the input and the mutation class.
func HostilePE(t *rapid.T, base []byte) ([]byte, string) {
	img := append([]byte{}, base...)
	fs, cuts := peFields(img)
	class := ""
	n := rapid.SampledFrom([]int{1, 1, 1, 2, 3}).Draw(t, "nmut")
	for i := 0; i < n; i++ {
		switch k := rapid.IntRange(0, 9).Draw(t, "hkind"); {
		case k < 6:
			f := fs[rapid.IntRange(0, len(fs)-1).Draw(t, "field")]
			put(img, f.off, f.width, hostileValue(t, get(img, f.off, f.width), len(img), f.width))
			class = join(class, "field:"+f.name)
		case k < 8:
			c := cuts[rapid.IntRange(0, len(cuts)-1).Draw(t, "cut")] + rapid.IntRange(-1, 1).Draw(t, "cutadj")
			if c < 0 {
				c = 0
			}
			if c < len(img) {
				img = img[:c]
			}
			class = join(class, "truncate")
		case k == 8:
			for j := rapid.IntRange(1, 4).Draw(t, "nflips"); j > 0 && len(img) > 0; j-- {
				img[rapid.IntRange(0, len(img)-1).Draw(t, "fp")] ^= byte(rapid.IntRange(1, 255).Draw(t, "fx"))
			}
			class = join(class, "noise")
		default:
			// make two sections overlap / point beyond the file
			l, err := pehash.Parse(img)
			if err == nil && len(l.Sections) >= 1 {
				i := rapid.IntRange(0, len(l.Sections)-1).Draw(t, "sec")
				h := l.SecTableOff + 40*i
				other := l.Sections[rapid.IntRange(0, len(l.Sections)-1).Draw(t, "sec2")]
				put(img, h+20, 4, uint64(other.Ptr)+uint64(rapid.IntRange(0, 8).Draw(t, "ovl")))
				put(img, h+16, 4, uint64(rapid.SampledFrom([]uint32{1, other.Size, other.Size + 8, uint32(len(img)), 0x10000}).Draw(t, "ovlsize")))
				class = join(class, "overlap")
			} else {
				class = join(class, "noop")
			}
		}
	}
	return img, class
}

func join(a, b string) string {
	if a == "" {
		return b
	}
	return a + "+" + b
}

// HostileDER damages an encoded DER element at the byte level: truncation,
// length octets set to hostile values, deep nesting, tag changes.
func HostileDER(t *rapid.T, base []byte) ([]byte, string) {
	b := append([]byte{}, base...)
	if len(b) < 4 {
		return b, "der:short"
	}
	switch rapid.IntRange(0, 8).Draw(t, "derkind") {
	case 6, 7, 8:
		if out, class := structuralDER(t, b); class != "" {
			return out, class
		}
		return b[:rapid.IntRange(0, len(b)-1).Draw(t, "cut")], "der:truncate"
	case 0:
		return b[:rapid.IntRange(0, len(b)-1).Draw(t, "cut")], "der:truncate"
	case 1:
		// find a length octet and replace it by a long-form hostile length
		i := rapid.IntRange(1, len(b)-1).Draw(t, "lenat")
		ins := rapid.SampledFrom([][]byte{{0x84, 0xff, 0xff, 0xff, 0xff}, {0x84, 0x7f, 0xff, 0xff, 0xff}, {0x80}, {0x88, 0, 0, 0, 1, 0, 0, 0, 0}, {0x81, 0x00}, {0x82, 0xff, 0xff}, {0xff}}).Draw(t, "hlen")
		out := append(append(append([]byte{}, b[:i]...), ins...), b[i+1:]...)
		return out, "der:length"
	case 2:
		depth := rapid.SampledFrom([]int{10, 100, 1000, 5000}).Draw(t, "depth")
		tag := rapid.SampledFrom([]byte{0x30, 0x31, 0xa0, 0x24}).Draw(t, "ntag")
		var out []byte
		inner := b
		if len(inner) > 200 {
			inner = inner[:200]
		}
		out = inner
		for d := 0; d < depth && len(out) < 60000; d++ {
			hdr := []byte{tag}
			n := len(out)
			switch {
			case n < 0x80:
				hdr = append(hdr, byte(n))
			case n < 0x100:
				hdr = append(hdr, 0x81, byte(n))
			default:
				hdr = append(hdr, 0x82, byte(n>>8), byte(n))
			}
			out = append(hdr, out...)
		}
		return out, "der:nesting"
	case 3:
		i := rapid.IntRange(0, len(b)-1).Draw(t, "tagat")
		b[i] = rapid.SampledFrom([]byte{0x30, 0x31, 0x02, 0x04, 0x05, 0x06, 0xa0, 0xa1, 0x17, 0x00, 0xff, 0x1f}).Draw(t, "newtag")
		return b, "der:tag"
	case 4:
		for j := rapid.IntRange(1, 6).Draw(t, "nflips"); j > 0; j-- {
			b[rapid.IntRange(0, len(b)-1).Draw(t, "fp")] ^= byte(rapid.IntRange(1, 255).Draw(t, "fx"))
		}
		return b, "der:noise"
	default:
		// splice: drop or duplicate a slice
		i := rapid.IntRange(0, len(b)-1).Draw(t, "si")
		j := rapid.IntRange(i, len(b)).Draw(t, "sj")
		if rapid.Bool().Draw(t, "dup") {
			return append(append(append([]byte{}, b[:j]...), b[i:j]...), b[j:]...), "der:duplicate_slice"
		}
		return append(append([]byte{}, b[:i]...), b[j:]...), "der:drop_slice"
	}
}

// structuralDER edits one element of the parsed TLV tree and re-encodes with consistent lengths, so that the
// result is well-formed DER whose *meaning* is unexpected: an object identifier from the same family with another
// last arc (or one arc less, or a multi-byte arc), integers of unusual value and size, empty or over-long strings,
// sequences that lost, doubled or swapped an element. Decoders get past the syntax and into the code that
// interprets the value.
func structuralDER(t *rapid.T, b []byte) ([]byte, string) {
	parsed, err := der.ParseOne(b, der.Options{})
	if err != nil {
		return nil, ""
	}
	root := parsed.Clone()
	var all, oids, ints, strs, cons []*der.Node
	var walk func(n *der.Node)
	walk = func(n *der.Node) {
		all = append(all, n)
		switch {
		case n.Class == der.ClassUniversal && n.Tag == der.TagOID && !n.Constructed:
			oids = append(oids, n)
		case n.Class == der.ClassUniversal && n.Tag == der.TagInteger && !n.Constructed:
			ints = append(ints, n)
		case !n.Constructed:
			strs = append(strs, n)
		case !n.Opaque && len(n.Children) > 0:
			cons = append(cons, n)
		}
		if !n.Opaque {
			for _, c := range n.Children {
				walk(c)
			}
		}
	}
	walk(root)
	pick := func(ns []*der.Node, label string) *der.Node {
		if len(ns) == 0 {
			return nil
		}
		return ns[rapid.IntRange(0, len(ns)-1).Draw(t, label)]
	}
	switch rapid.IntRange(0, 3).Draw(t, "structkind") {
	case 0:
		n := pick(oids, "whichoid")
		if n == nil || len(n.Content) == 0 {
			return nil, ""
		}
		c := append([]byte{}, n.Content...)
		switch rapid.IntRange(0, 3).Draw(t, "oidedit") {
		case 0, 1:
			// another member of the same family: last arc replaced (single octet)
			c[len(c)-1] = byte(rapid.SampledFrom([]int{0, 1, 2, 3, 4, 5, 6, 7, 8, 9, 10, 11, 12, 13, 14, 15, 16, 26, 40, 100, 127}).Draw(t, "lastarc"))
		case 2:
			// last arc in two octets
			c = append(c[:len(c)-1], 0x81, byte(rapid.IntRange(0, 127).Draw(t, "lastarc2")))
		default:
			if len(c) < 2 {
				return nil, ""
			}
			c = c[:len(c)-1]
			c[len(c)-1] &= 0x7f
		}
		n.Content = c
		return root.Encode(), "der:oid_sibling"
	case 1:
		n := pick(ints, "whichint")
		if n == nil {
			return nil, ""
		}
		n.Content = rapid.SampledFrom([][]byte{{}, {0}, {1}, {2}, {3}, {0x7f}, {0x80}, {0xff}, {0, 0x80}, {0x7f, 0xff, 0xff, 0xff}, {0x80, 0, 0, 0}, {0, 0xff, 0xff, 0xff, 0xff, 0xff, 0xff, 0xff, 0xff}, make([]byte, 64)}).Draw(t, "intval")
		return root.Encode(), "der:integer_value"
	case 2:
		n := pick(strs, "whichstr")
		if n == nil {
			return nil, ""
		}
		switch rapid.IntRange(0, 2).Draw(t, "stredit") {
		case 0:
			n.Content = []byte{}
		case 1:
			n.Content = []byte{byte(rapid.IntRange(0, 255).Draw(t, "one"))}
		default:
			n.Content = append(append([]byte{}, n.Content...), FillBytes(t, rapid.SampledFrom([]int{1, 31, 32, 33, 255, 256, 4096}).Draw(t, "grow"))...)
		}
		return root.Encode(), "der:string_length"
	default:
		n := pick(cons, "whichcons")
		if n == nil {
			return nil, ""
		}
		i := rapid.IntRange(0, len(n.Children)-1).Draw(t, "child")
		switch rapid.IntRange(0, 3).Draw(t, "consedit") {
		case 0:
			n.Children = append(append([]*der.Node{}, n.Children[:i]...), n.Children[i+1:]...)
		case 1:
			n.Children = append(append(append([]*der.Node{}, n.Children[:i+1]...), n.Children[i].Clone()), n.Children[i+1:]...)
		case 2:
			j := rapid.IntRange(0, len(n.Children)-1).Draw(t, "other")
			n.Children[i], n.Children[j] = n.Children[j], n.Children[i]
		default:
			n.Children = []*der.Node{}
		}
		return root.Encode(), "der:children_edit"
	}
}

// BulkCMS blows one of the repeated collections of a SignedData up to tens of thousands of elements with distinct
// keys (signed or unsigned attributes with distinct types, digest algorithms with distinct OIDs, copies of the signer
// with distinct serials, copies of the certificate): the blob stays well-formed DER of about 0.1..1.5 MB. A decoder
// that is linear in the input takes milliseconds for it; one that compares every element with every other does not
// finish in time.
func BulkCMS(t *rapid.T, base []byte) ([]byte, string) {
	parsed, err := der.ParseOne(base, der.Options{})
	if err != nil {
		return nil, ""
	}
	root := parsed.Clone()
	sd, err := cms.Locate(root)
	if err != nil || len(sd.Signers) == 0 {
		return nil, ""
	}
	s := sd.Signers[0]
	n := rapid.SampledFrom([]int{3000, 60000, 150000}).Draw(t, "bulkn")
	arcs := func(i int) *der.Node { return der.OID(1, 2, 840, 113549, 1, 9, 16, 2, uint64(1000+i)) }
	switch rapid.IntRange(0, 4).Draw(t, "bulkwhat") {
	case 0:
		if s.Attrs == nil {
			return nil, ""
		}
		for i := 0; i < n; i++ {
			s.Attrs.Children = append(s.Attrs.Children, cms.Attr([]uint64{1, 2, 840, 113549, 1, 9, 16, 2, uint64(1000 + i)}, der.Octets([]byte{byte(i)})))
		}
		s.Attrs.Opaque, s.Attrs.Content = false, nil
		return root.Encode(), fmt.Sprintf("bulk:%d_signed_attributes", n)
	case 1:
		var un []*der.Node
		for i := 0; i < n; i++ {
			un = append(un, cms.Attr([]uint64{1, 2, 840, 113549, 1, 9, 16, 2, uint64(1000 + i)}, der.Octets([]byte{byte(i)})))
		}
		if s.UnAttrs != nil {
			s.UnAttrs.Children = append(s.UnAttrs.Children, un...)
			s.UnAttrs.Opaque, s.UnAttrs.Content = false, nil
		} else {
			s.Node.Children = append(s.Node.Children, &der.Node{Class: der.ClassContext, Constructed: true, Tag: 1, Children: un})
		}
		return root.Encode(), fmt.Sprintf("bulk:%d_unsigned_attributes", n)
	case 2:
		for i := 0; i < n; i++ {
			sd.DigestAlgs.Children = append(sd.DigestAlgs.Children, der.Seq(arcs(i), der.Null()))
		}
		return root.Encode(), fmt.Sprintf("bulk:%d_digest_algorithms", n)
	case 3:
		if s.Serial == nil {
			return nil, ""
		}
		m := n / 40 // a signer info is a few hundred bytes
		for i := 0; i < m; i++ {
			c := s.Node.Clone()
			if cs, err := cmsSigner(c); err == nil && cs.Serial != nil {
				cs.Serial.Content = []byte{0x01, byte(i >> 16), byte(i >> 8), byte(i)}
			}
			sd.SignerSet.Children = append(sd.SignerSet.Children, c)
		}
		return root.Encode(), fmt.Sprintf("bulk:%d_signer_infos", m)
	default:
		if sd.Certs == nil || len(sd.Certs.RawValue()) == 0 {
			return nil, ""
		}
		one := append([]byte{}, sd.Certs.Value()...)
		m := n / 60
		if len(one)*m > 2<<20 {
			m = (2 << 20) / len(one)
		}
		sd.Certs.Opaque, sd.Certs.Children = true, nil
		sd.Certs.Content = bytes.Repeat(one, m+1)
		return root.Encode(), fmt.Sprintf("bulk:%d_certificates", m+1)
	}
}

// cmsSigner locates the fields of a cloned SignerInfo node.
func cmsSigner(n *der.Node) (*cms.Signer, error) {
	wrap := der.Seq(der.SmallInt(1), der.Set(), der.Seq(der.OID(cms.OIDData...)), der.Set(n))
	sd, err := cms.Locate(wrap)
	if err != nil || len(sd.Signers) == 0 {
		return nil, fmt.Errorf("no signer")
	}
	return sd.Signers[0], nil
}
