package gen

import (
	"encoding/pem"
	"pgregory.net/rapid"

	"verifharness/ref/esl"
	"verifharness/ref/guid"
)

// Owners is a small universe of owner GUIDs plus arbitrary ones.
var Owners = []guid.G{
	{D1: 0x77fa9abd, D2: 0x0359, D3: 0x4d32, D4: [8]byte{0xbd, 0x60, 0x28, 0xf4, 0xe7, 0x8f, 0x78, 0x4b}}, // Microsoft
	{D1: 0x00000000, D2: 0x0000, D3: 0x0000, D4: [8]byte{}},
	{D1: 0x0a0b0c0d, D2: 0x0102, D3: 0x0304, D4: [8]byte{1, 2, 3, 4, 5, 6, 7, 8}},
}

// Owner draws an owner GUID.
func Owner() *rapid.Generator[guid.G] {
	return rapid.Custom(func(t *rapid.T) guid.G {
		if rapid.IntRange(0, 2).Draw(t, "fixedowner") != 0 {
			return rapid.SampledFrom(Owners).Draw(t, "owner")
		}
		return GUID().Draw(t, "owner")
	})
}

// ESLList draws one well-formed list of a type the decoder handles. One list in
// eight repeats one of its entries (legal in a stream), one in sixteen is big
// (33..70 entries).
func ESLList() *rapid.Generator[esl.List] { return eslList(false) }

// ESLListHuge is ESLList where one list in sixty has hundreds to thousands of entries.
func ESLListHuge() *rapid.Generator[esl.List] { return eslList(true) }

func eslList(huge bool) *rapid.Generator[esl.List] {
	return rapid.Custom(func(t *rapid.T) esl.List {
		l := eslListPlain(t)
		if len(l.Entries) >= 1 && rapid.IntRange(0, 7).Draw(t, "dupentry") == 0 {
			e := l.Entries[rapid.IntRange(0, len(l.Entries)-1).Draw(t, "which")]
			at := rapid.IntRange(0, len(l.Entries)).Draw(t, "at")
			l.Entries = append(l.Entries[:at:at], append([]esl.Entry{{Owner: e.Owner, Data: append([]byte{}, e.Data...)}}, l.Entries[at:]...)...)
		}
		if l.Type != esl.ExtMgm && rapid.IntRange(0, 15).Draw(t, "biglist") == 0 {
			n := rapid.IntRange(33, 70).Draw(t, "bign")
			for len(l.Entries) < n {
				l.Entries = append(l.Entries, esl.Entry{Owner: Owner().Draw(t, "o"), Data: FillBytes(t, int(l.Size)-16)})
			}
		}
		if huge && l.Type != esl.ExtMgm && Chance(t, "hugelist", 1, 60) {
			// hundreds to thousands of entries: counts around powers of two, where buffers and pre-sized slices end
			n := rapid.SampledFrom([]int{255, 256, 257, 1023, 1024, 1025, 1026, 1100, 2049, 4097}).Draw(t, "hugen")
			if l.Size > 16+64 {
				l = esl.List{Type: l.Type, Size: 16 + 40} // keep the stream below ~250 KB
			}
			seed := rapid.Uint64().Draw(t, "hugeseed") | 1
			owner := Owner().Draw(t, "hugeowner")
			for i := len(l.Entries); i < n; i++ {
				d := make([]byte, int(l.Size)-16)
				for j := range d {
					seed ^= seed << 13
					seed ^= seed >> 7
					seed ^= seed << 17
					d[j] = byte(seed >> 24)
				}
				l.Entries = append(l.Entries, esl.Entry{Owner: owner, Data: d})
			}
		}
		if len(l.Entries) > 8 && l.Size >= 28 && rapid.Bool().Draw(t, "mimic") {
			mimicHeaders(l)
		}
		return l
	})
}

func eslListPlain(t *rapid.T) esl.List {
	{
		switch rapid.IntRange(0, 9).Draw(t, "ltype") {
		case 0, 1, 2, 3:
			dl := rapid.SampledFrom([]int{0, 1, 31, 32, 33, 48, 49, 63, 64, 700, 701, 1023, 1500, 4095, 4096, 4097, 8192}).Draw(t, "certlen")
			if rapid.Bool().Draw(t, "anylen") {
				dl = rapid.IntRange(0, 1500).Draw(t, "certlen2")
			}
			n := rapid.IntRange(0, 4).Draw(t, "n")
			l := esl.List{Type: esl.X509, Size: uint32(16 + dl)}
			for i := 0; i < n; i++ {
				l.Entries = append(l.Entries, esl.Entry{Owner: Owner().Draw(t, "o"), Data: FillBytes(t, dl)})
			}
			return l
		case 4, 5, 6, 7, 8:
			n := rapid.IntRange(0, 6).Draw(t, "n")
			l := esl.List{Type: esl.SHA256, Size: 48}
			for i := 0; i < n; i++ {
				l.Entries = append(l.Entries, esl.Entry{Owner: Owner().Draw(t, "o"), Data: FillBytes(t, 32)})
			}
			return l
		default:
			n := rapid.IntRange(0, 3).Draw(t, "n")
			l := esl.List{Type: esl.ExtMgm, Size: 17}
			for i := 0; i < n; i++ {
				l.Entries = append(l.Entries, esl.Entry{Owner: Owner().Draw(t, "o"), Data: FillBytes(t, 1)})
			}
			return l
		}
	}
}

// ESLStream draws 0..max well-formed lists in any order; adjacent lists of equal
// type and size and empty lists occur.
func ESLStream(max int) *rapid.Generator[[]esl.List] { return eslStream(max, false) }

// ESLStreamHuge is ESLStream over ESLListHuge.
func ESLStreamHuge(max int) *rapid.Generator[[]esl.List] { return eslStream(max, true) }

func eslStream(max int, huge bool) *rapid.Generator[[]esl.List] {
	return rapid.Custom(func(t *rapid.T) []esl.List {
		n := rapid.IntRange(0, max).Draw(t, "nlists")
		var out []esl.List
		for i := 0; i < n; i++ {
			if i > 0 && rapid.IntRange(0, 4).Draw(t, "twin") == 0 {
				// same type and size as the previous list, other content
				prev := out[i-1]
				l := esl.List{Type: prev.Type, Size: prev.Size}
				m := rapid.IntRange(0, 3).Draw(t, "m")
				for j := 0; j < m; j++ {
					l.Entries = append(l.Entries, esl.Entry{Owner: Owner().Draw(t, "o"), Data: FillBytes(t, int(prev.Size)-16)})
				}
				out = append(out, l)
				continue
			}
			out = append(out, eslList(huge).Draw(t, "list"))
		}
		return out
	})
}

// mimicHeaders rewrites the entries of a list (all but the first) so that each of them reads as the header of an
// X.509 list that spans exactly the rest of the enclosing list: owner field = the X.509 type GUID, then ListSize =
// bytes left, HeaderSize = 0, SignatureSize = bytes left - 28. The list stays well-formed and means what it meant
// (the entries are just data), but a decoder that loses count inside the list (a clamp, a wrapped counter, an
// early exit) lands on something it can parse and returns a differently-split database instead of an error.
func mimicHeaders(l esl.List) {
	n := len(l.Entries)
	for i := 1; i < n; i++ {
		rest := uint32(n-i) * l.Size
		if rest < 28+16 {
			break
		}
		e := &l.Entries[i]
		e.Owner = esl.X509
		d := make([]byte, len(e.Data))
		copy(d, e.Data)
		if len(d) >= 12 {
			le32(d[0:], rest)
			le32(d[4:], 0)
			le32(d[8:], rest-28)
		}
		e.Data = d
	}
}

func le32(b []byte, v uint32) { b[0], b[1], b[2], b[3] = byte(v), byte(v>>8), byte(v>>16), byte(v>>24) }

// WithPEMText turns the certificates of one X.509 list in ten into the text of PEM files: other tools enroll a PEM
// file as it is, the entry data then is that text, and that is what a decoder has to hand out and re-encode. Not for
// checks that go on to use the append / remove API on the decoded database: that API converts PEM arguments to DER,
// so such an entry cannot be named through it.
func WithPEMText(t *rapid.T, lists []esl.List) []esl.List {
	for k := range lists {
		l := &lists[k]
		if l.Type != esl.X509 || len(l.Entries) == 0 || rapid.IntRange(0, 9).Draw(t, "pemtext") != 0 {
			continue
		}
		var entries []esl.Entry
		for i := range l.Entries {
			txt := pem.EncodeToMemory(&pem.Block{Type: "CERTIFICATE", Bytes: FillBytes(t, 60)})
			entries = append(entries, esl.Entry{Owner: l.Entries[i].Owner, Data: txt})
		}
		l.Entries, l.Size = entries, uint32(16+len(entries[0].Data))
	}
	return lists
}

// GiantESL builds (deterministically, from the kind alone, so that a case file stays small) a well-formed stream of
// the sizes the formats allow and ordinary inputs never reach: kind 1 is one X.509 list whose single entry is a little
// over 16 MiB, kind 2 is 34 X.509 lists of exactly 1 MiB each (every power-of-two offset up to 32 MiB is a list
// boundary) followed by a small SHA-256 list, kind 3 is one SHA-256 list of 350000 hashes.
func GiantESL(kind int) []esl.List {
	fill := func(n int, salt byte) []byte {
		b := make([]byte, n)
		x := uint32(salt) + 1
		for i := range b {
			x = x*1664525 + 1013904223
			b[i] = byte(x >> 24)
		}
		if n > 4 {
			b[0], b[1] = 0x30, 0x84 // reads like the start of a (long) DER element
		}
		return b
	}
	switch kind {
	case 1:
		n := 16<<20 + 17
		return []esl.List{{Type: esl.X509, Size: uint32(16 + n), Entries: []esl.Entry{{Owner: Owners[0], Data: fill(n, 1)}}}}
	case 2:
		var out []esl.List
		for i := 0; i < 34; i++ {
			n := 1<<20 - 28 - 16
			out = append(out, esl.List{Type: esl.X509, Size: uint32(16 + n), Entries: []esl.Entry{{Owner: Owners[i%len(Owners)], Data: fill(n, byte(i))}}})
		}
		return append(out, esl.List{Type: esl.SHA256, Size: 48, Entries: []esl.Entry{{Owner: Owners[0], Data: fill(32, 99)}}})
	default:
		l := esl.List{Type: esl.SHA256, Size: 48}
		all := fill(32*350000, 7)
		for i := 0; i < 350000; i++ {
			l.Entries = append(l.Entries, esl.Entry{Owner: Owners[i%len(Owners)], Data: all[32*i : 32*i+32]})
		}
		return []esl.List{l}
	}
}
