package gen

import (
	"bytes"
	"crypto"
	"crypto/rsa"
	"crypto/sha256"
	"math/big"

	"pgregory.net/rapid"

	"verifharness/ref/cms"
	"verifharness/ref/der"
)

// MutEnv gives the structural mutators material to work with.
type MutEnv struct {
	OtherCert   []byte          // DER of an unrelated certificate
	OtherIssuer []byte          // raw issuer Name of an unrelated certificate
	AltKey      *rsa.PrivateKey // a key that is not the signer's
	NewContent  []byte          // replacement content octets
	Foreign     []byte          // a valid signature by somebody else over other (encapsulated) content
	SignerKey   *rsa.PrivateKey // the signer's own key, when the harness has it (nil for fixtures): for blobs only the key holder can make
}

func leaves(n *der.Node, out *[]*der.Node) {
	if n.Constructed && !n.Opaque {
		for _, c := range n.Children {
			leaves(c, out)
		}
		return
	}
	*out = append(*out, n)
}

func flipIn(t *rapid.T, b []byte) {
	if len(b) == 0 {
		return
	}
	i := rapid.IntRange(0, len(b)-1).Draw(t, "flipat")
	if rapid.Bool().Draw(t, "bit") {
		b[i] ^= 1 << uint(rapid.IntRange(0, 7).Draw(t, "bitno"))
	} else {
		b[i] ^= byte(rapid.IntRange(1, 255).Draw(t, "xor"))
	}
}

// CMSMutationClasses lists the mutation classes of MutateCMS.
var CMSMutationClasses = []string{
	"raw_flip", "leaf_flip", "attr_swap", "attr_remove", "attr_duplicate", "attr_reverse",
	"content_edit", "content_replace", "content_remove", "content_add",
	"etype_change", "outer_oid_change", "attr_contenttype_change",
	"certs_drop", "certs_replace", "certs_add",
	"issuer_change", "serial_change", "serial_sign_edit", "unsigned_attrs_shadow_signed", "sig_length_edit", "sig_padding_malformed", "signer_id_key_identifier", "signed_attr_with_neighbour_oid", "signed_attr_with_neighbour_oid", "countersignature_added", "sets_emptied", "algorithm_parameters_odd", "signed_attrs_without_digest", "digest_attr_rewrite", "digest_attr_rewrite_and_content",
	"sig_flip", "sig_by_other_key", "digestalg_change", "sigalg_change", "null_params_toggle",
	"second_signer", "outer_strip", "outer_add", "attrs_retag_set", "attrs_remove_all", "attrs_empty",
	"foreign_content_and_signer", "foreign_content_and_signer", "issuer_string_retag",
	"content_malformed", "content_malformed",
}

// MutateCMS derives an adversarial blob from a parsable SignedData. It returns
// the mutated blob and the class that was applied ("" when not applicable).
func MutateCMS(t *rapid.T, blob []byte, env MutEnv) ([]byte, string) {
	class := rapid.SampledFrom(CMSMutationClasses).Draw(t, "mutclass")
	if class == "raw_flip" {
		out := append([]byte{}, blob...)
		flipIn(t, out)
		return out, class
	}
	parsed, err := der.ParseOne(blob, der.Options{})
	if err != nil {
		out := append([]byte{}, blob...)
		flipIn(t, out)
		return out, "raw_flip"
	}
	root := parsed.Clone()
	sd, err := cms.Locate(root)
	if err != nil || len(sd.Signers) == 0 {
		out := append([]byte{}, blob...)
		flipIn(t, out)
		return out, "raw_flip"
	}
	s := sd.Signers[rapid.IntRange(0, len(sd.Signers)-1).Draw(t, "signer")]
	attrs := func() []*der.Node {
		if s.Attrs == nil {
			return nil
		}
		return s.Attrs.Children
	}
	na := "" // not applicable
	switch class {
	case "leaf_flip":
		var ls []*der.Node
		leaves(root, &ls)
		var cand []*der.Node
		for _, l := range ls {
			if len(l.Content) > 0 {
				cand = append(cand, l)
			}
		}
		if len(cand) == 0 {
			return nil, na
		}
		flipIn(t, cand[rapid.IntRange(0, len(cand)-1).Draw(t, "leaf")].Content)
	case "attr_swap":
		a := attrs()
		if len(a) < 2 {
			return nil, na
		}
		i := rapid.IntRange(0, len(a)-2).Draw(t, "i")
		j := rapid.IntRange(i+1, len(a)-1).Draw(t, "j")
		a[i], a[j] = a[j], a[i]
	case "attr_reverse":
		a := attrs()
		if len(a) < 2 {
			return nil, na
		}
		for i, j := 0, len(a)-1; i < j; i, j = i+1, j-1 {
			a[i], a[j] = a[j], a[i]
		}
	case "attr_remove":
		a := attrs()
		if len(a) < 1 {
			return nil, na
		}
		i := rapid.IntRange(0, len(a)-1).Draw(t, "i")
		s.Attrs.Children = append(append([]*der.Node{}, a[:i]...), a[i+1:]...)
	case "attr_duplicate":
		a := attrs()
		if len(a) < 1 {
			return nil, na
		}
		i := rapid.IntRange(0, len(a)-1).Draw(t, "i")
		s.Attrs.Children = append(s.Attrs.Children, a[i].Clone())
	case "attrs_remove_all":
		if s.Attrs == nil {
			return nil, na
		}
		var keep []*der.Node
		for _, c := range s.Node.Children {
			if c != s.Attrs {
				keep = append(keep, c)
			}
		}
		s.Node.Children = keep
	case "attrs_empty":
		if s.Attrs == nil {
			return nil, na
		}
		s.Attrs.Children, s.Attrs.Opaque, s.Attrs.Content = []*der.Node{}, false, nil
	case "foreign_content_and_signer":
		// somebody else's valid signature over other content, with the victim's SignerInfo added beside the foreign one
		if env.Foreign == nil {
			return nil, na
		}
		fp, err := der.ParseOne(env.Foreign, der.Options{})
		if err != nil {
			return nil, na
		}
		froot := fp.Clone()
		fsd, err := cms.Locate(froot)
		if err != nil || fsd.EContent0 == nil {
			return nil, na
		}
		victim := s.Node.Clone()
		if rapid.Bool().Draw(t, "victimfirst") {
			fsd.SignerSet.Children = append([]*der.Node{victim}, fsd.SignerSet.Children...)
		} else {
			fsd.SignerSet.Children = append(fsd.SignerSet.Children, victim)
		}
		if sd.Certs != nil && fsd.Certs != nil && !fsd.Certs.Opaque && !sd.Certs.Opaque {
			for _, c := range sd.Certs.Children {
				fsd.Certs.Children = append(fsd.Certs.Children, c.Clone())
			}
		}
		return froot.Encode(), class
	case "attrs_retag_set":
		if s.Attrs == nil {
			return nil, na
		}
		s.Attrs.Class, s.Attrs.Tag = der.ClassUniversal, der.TagSet
	case "content_edit":
		if sd.EContent0 == nil {
			return nil, na
		}
		var ls []*der.Node
		leaves(sd.EContent0, &ls)
		var cand []*der.Node
		for _, l := range ls {
			if len(l.Content) > 0 {
				cand = append(cand, l)
			}
		}
		if len(cand) == 0 {
			return nil, na
		}
		flipIn(t, cand[rapid.IntRange(0, len(cand)-1).Draw(t, "leaf")].Content)
	case "content_replace":
		if sd.EContent0 == nil {
			return nil, na
		}
		sd.EContent0.Children = []*der.Node{der.Octets(env.NewContent)}
		sd.EContent0.Opaque, sd.EContent0.Content = false, nil
	case "content_malformed":
		// the signer info (and with it the signature over the attributes) stays as it is; what the [0] of the encapsulated
		// content holds is no longer an element: cut inside its length octets, a length beyond what is there, an
		// indefinite or oversized length, an unfinished high tag number, nothing at all, or the old element damaged
		if sd.EContent0 == nil {
			return nil, na
		}
		var raw []byte
		if k := rapid.IntRange(0, 13).Draw(t, "malformed"); k < 12 {
			raw = [][]byte{{0x30, 0x84, 0xaa, 0xbb, 0xcc}, {0x30, 0x82, 0x01}, {0x30, 0x81}, {0x30}, {0x04, 0x85, 1, 2, 3, 4}, {0x30, 0x80}, {0x30, 0x80, 0x00, 0x00},
				{0x1f, 0x81}, {0x30, 0x05, 0x01}, {}, {0x30, 0x88, 0xff, 0xff, 0xff, 0xff, 0xff, 0xff, 0xff, 0xff}, {0x30, 0x84, 0x7f, 0xff, 0xff, 0xff, 0x00}}[k]
		} else {
			var old []byte
			for _, ch := range sd.EContent0.Children {
				old = append(old, ch.Encode()...)
			}
			if sd.EContent0.Children == nil {
				old = append(old, sd.EContent0.Content...)
			}
			raw, _ = HostileDER(t, old)
		}
		sd.EContent0.Children, sd.EContent0.Opaque, sd.EContent0.Content = nil, true, append([]byte{}, raw...)
	case "content_remove":
		if sd.EContent0 == nil {
			return nil, na
		}
		sd.EncapCI.Children = sd.EncapCI.Children[:1]
	case "content_add":
		if sd.EContent0 != nil {
			return nil, na
		}
		sd.EncapCI.Children = append(sd.EncapCI.Children, der.CtxC(0, der.Octets(env.NewContent)))
	case "etype_change":
		sd.EType.Content = der.OID(1, 2, 840, 113549, 1, 7, uint64(rapid.IntRange(2, 6).Draw(t, "ct"))).Content
	case "outer_oid_change":
		if !sd.HasOuter {
			return nil, na
		}
		sd.OuterOID.Content = der.OID(cms.OIDData...).Content
	case "attr_contenttype_change":
		vals := s.AttrValues(cms.OIDContentType)
		if len(vals) == 0 {
			return nil, na
		}
		vals[0].Content = der.OID(1, 2, 840, 113549, 1, 7, 3).Content
	case "certs_drop":
		if sd.Certs == nil {
			return nil, na
		}
		var keep []*der.Node
		for _, c := range sd.Body.Children {
			if c != sd.Certs {
				keep = append(keep, c)
			}
		}
		sd.Body.Children = keep
	case "certs_replace", "certs_add":
		oc, err := der.ParseOne(env.OtherCert, der.Options{})
		if err != nil {
			return nil, na
		}
		if sd.Certs == nil {
			// insert a certificates field after the encapsulated ContentInfo
			var out []*der.Node
			for _, c := range sd.Body.Children {
				out = append(out, c)
				if c == sd.EncapCI {
					out = append(out, der.CtxC(0, oc.Clone()))
				}
			}
			sd.Body.Children = out
		} else if class == "certs_replace" {
			sd.Certs.Children, sd.Certs.Opaque, sd.Certs.Content = []*der.Node{oc.Clone()}, false, nil
		} else {
			if sd.Certs.Opaque {
				return nil, na
			}
			sd.Certs.Children = append(sd.Certs.Children, oc.Clone())
		}
	case "issuer_change":
		if s.IAS == nil {
			return nil, na
		}
		oi, err := der.ParseOne(env.OtherIssuer, der.Options{})
		if err != nil {
			return nil, na
		}
		if certs := sd.CertList(); len(certs) > 0 && !bytes.Equal(certs[0].RawSubject, certs[0].RawIssuer) && rapid.Bool().Draw(t, "subject_for_issuer") {
			// the signer info names the embedded certificate by its subject (for a certificate issued by a CA that is
			// another name than its issuer): it then names some other certificate, whatever the serial
			if sn, serr := der.ParseOne(certs[0].RawSubject, der.Options{}); serr == nil {
				oi = sn
			}
		}
		s.IAS.Children[0] = oi.Clone()
	case "issuer_string_retag":
		// the same characters under another ASN.1 string type: another name as far as byte comparison goes
		if s.Issuer == nil {
			return nil, na
		}
		var ls []*der.Node
		leaves(s.Issuer, &ls)
		var strs []*der.Node
		for _, l := range ls {
			if l.Class == der.ClassUniversal && (l.Tag == der.TagPrintable || l.Tag == der.TagUTF8String || l.Tag == 22 || l.Tag == 20) {
				strs = append(strs, l)
			}
		}
		if len(strs) == 0 {
			return nil, na
		}
		n := strs[rapid.IntRange(0, len(strs)-1).Draw(t, "whichstring")]
		alts := []uint32{der.TagUTF8String, der.TagPrintable, 22, 20}
		nt := alts[rapid.IntRange(0, len(alts)-1).Draw(t, "newtag")]
		if nt == n.Tag {
			nt = alts[(rapid.IntRange(0, len(alts)-1).Draw(t, "newtag2")+1)%len(alts)]
			if nt == n.Tag {
				return nil, na
			}
		}
		n.Tag = nt
	case "serial_change":
		if s.Serial == nil || len(s.Serial.Content) == 0 {
			return nil, na
		}
		s.Serial.Content[len(s.Serial.Content)-1] ^= byte(rapid.IntRange(1, 255).Draw(t, "sx"))
	case "serial_sign_edit":
		// the same octets read with the other sign, or the same number written with another length
		if s.Serial == nil || len(s.Serial.Content) == 0 {
			return nil, na
		}
		c := s.Serial.Content
		switch rapid.IntRange(0, 2).Draw(t, "how") {
		case 0:
			if len(c) < 2 || c[0] != 0 {
				return nil, na
			}
			s.Serial.Content = append([]byte{}, c[1:]...) // drops the sign octet: now a negative number
		case 1:
			s.Serial.Content = append([]byte{0x00}, c...)
		default:
			s.Serial.Content = append([]byte{0xff}, c...)
		}
	case "digest_attr_rewrite", "digest_attr_rewrite_and_content":
		vals := s.AttrValues(cms.OIDMessageDigest)
		if len(vals) == 0 {
			return nil, na
		}
		d := sha256.Sum256(env.NewContent)
		vals[0].Content = d[:]
		if class == "digest_attr_rewrite_and_content" {
			if sd.EContent0 == nil {
				return nil, na
			}
			sd.EContent0.Children = []*der.Node{der.Octets(env.NewContent)}
			sd.EContent0.Opaque, sd.EContent0.Content = false, nil
		}
	case "unsigned_attrs_shadow_signed":
		// needs no key: other content, and unauthenticated attributes [1] that repeat the signed attribute types with
		// values fitting the new content (the signed ones, and the signature over them, stay as they are)
		if sd.EContent0 == nil || s.Attrs == nil || s.Sig == nil {
			return nil, na
		}
		sd.EContent0.Children = []*der.Node{der.Octets(env.NewContent)}
		sd.EContent0.Opaque, sd.EContent0.Content = false, nil
		d := sha256.Sum256(env.NewContent)
		un := []*der.Node{cms.Attr(cms.OIDMessageDigest, der.Octets(d[:]))}
		if rapid.Bool().Draw(t, "with_content_type") && sd.EType != nil {
			un = append(un, cms.Attr(cms.OIDContentType, sd.EType.Clone()))
		}
		unNode := &der.Node{Class: der.ClassContext, Constructed: true, Tag: 1, Children: un}
		if s.UnAttrs != nil {
			s.UnAttrs.Children = append(s.UnAttrs.Children, un...)
			s.UnAttrs.Opaque, s.UnAttrs.Content = false, nil
		} else {
			s.Node.Children = append(s.Node.Children, unNode)
		}
	case "sig_length_edit":
		// the signature octet string is no longer as long as the modulus: octets in front of a valid signature
		// (zero or not), the first octet dropped, an octet appended
		if s.Sig == nil || len(s.Sig.Content) < 2 {
			return nil, na
		}
		c := s.Sig.Content
		switch rapid.IntRange(0, 4).Draw(t, "how") {
		case 0:
			s.Sig.Content = append([]byte{byte(rapid.IntRange(1, 255).Draw(t, "front"))}, c...)
		case 1:
			s.Sig.Content = append([]byte{0xde, 0xad, 0xbe, 0xef}, c...)
		case 2:
			s.Sig.Content = append([]byte{0x00}, c...)
		case 3:
			s.Sig.Content = append([]byte{}, c[1:]...)
		default:
			s.Sig.Content = append(append([]byte{}, c...), 0x00)
		}
	case "sig_padding_malformed":
		// made with the signer's own key, but not a PKCS#1 v1.5 signature: the encoded message has short padding and
		// octets left over behind the DigestInfo (the shape of Bleichenbacher's 2006 forgery), or a DigestInfo for
		// another hash. A verifier that decodes the block by hand and stops at the digest accepts these.
		if env.SignerKey == nil || s.Attrs == nil || s.Sig == nil {
			return nil, na
		}
		v := s.Attrs.Value()
		tbs := append(append([]byte{0x31}, der.EncodeLen(len(v))...), v...)
		h := sha256.Sum256(tbs)
		k := (env.SignerKey.N.BitLen() + 7) / 8
		digestInfo := append([]byte{0x30, 0x31, 0x30, 0x0d, 0x06, 0x09, 0x60, 0x86, 0x48, 0x01, 0x65, 0x03, 0x04, 0x02, 0x01, 0x05, 0x00, 0x04, 0x20}, h[:]...)
		var em []byte
		switch rapid.IntRange(0, 2).Draw(t, "padkind") {
		case 0: // 8 octets of padding, garbage behind the DigestInfo
			em = append([]byte{0x00, 0x01, 0xff, 0xff, 0xff, 0xff, 0xff, 0xff, 0xff, 0xff, 0x00}, digestInfo...)
			for len(em) < k {
				em = append(em, 0xa5)
			}
		case 1: // block type 2 style (non-0xff padding octets)
			em = []byte{0x00, 0x01}
			for len(em) < k-len(digestInfo)-1 {
				em = append(em, 0xfe)
			}
			em = append(append(em, 0x00), digestInfo...)
		default: // full padding, DigestInfo without the NULL parameters and one octet of garbage to make up the length
			di := append([]byte{0x30, 0x2f, 0x30, 0x0b, 0x06, 0x09, 0x60, 0x86, 0x48, 0x01, 0x65, 0x03, 0x04, 0x02, 0x01, 0x04, 0x20}, h[:]...)
			em = []byte{0x00, 0x01}
			for len(em) < k-len(di)-3 {
				em = append(em, 0xff)
			}
			em = append(append(append(em, 0x00), di...), 0x00, 0x00)
		}
		if len(em) != k {
			return nil, na
		}
		m := new(big.Int).SetBytes(em)
		c := new(big.Int).Exp(m, env.SignerKey.D, env.SignerKey.N)
		s.Sig.Content = c.FillBytes(make([]byte, k))
	case "signed_attr_with_neighbour_oid":
		// made by the key holder: one more signed attribute whose type lies next to a known one in the OID tree (a child of
		// messageDigest, an id-aa attribute with the same last arc, the arc above). It is a different type. Either the
		// genuine attributes stay right (and the blob good) or the genuine messageDigest is wrong and the neighbour holds
		// the digest a careless reader would want.
		if env.SignerKey == nil || s.Attrs == nil || s.Sig == nil || s.Attrs.Opaque {
			return nil, na
		}
		vals := s.AttrValues(cms.OIDMessageDigest)
		if len(vals) == 0 || len(vals[0].Content) == 0 {
			return nil, na
		}
		target := rapid.SampledFrom([][]uint64{cms.OIDMessageDigest, cms.OIDMessageDigest, cms.OIDContentType, cms.OIDSigningTime}).Draw(t, "neighbour_of")
		oid := NeighbourOID(t, target)
		good := append([]byte{}, vals[0].Content...)
		var value *der.Node
		breakGenuine := rapid.Bool().Draw(t, "genuine_digest_wrong")
		switch {
		case der.EqualOID(der.OID(target...), cms.OIDMessageDigest...):
			value = der.Octets(good)
			if !breakGenuine && rapid.Bool().Draw(t, "neighbour_wrong") {
				value = der.Octets(FillBytes(t, 32))
			}
		case der.EqualOID(der.OID(target...), cms.OIDContentType...):
			value = der.OID(1, 2, 840, 113549, 1, 7, 6)
			breakGenuine = false
		default:
			value = der.Octets([]byte("not a time")) // (what id-aa-msgSigDigest and friends hold)
			breakGenuine = false
		}
		if breakGenuine {
			vals[0].Content = append([]byte{}, good...)
			vals[0].Content[len(good)-1] ^= 0x01
		}
		decoy := cms.Attr(oid, value)
		if rapid.Bool().Draw(t, "neighbour_first") {
			s.Attrs.Children = append([]*der.Node{decoy}, s.Attrs.Children...)
		} else {
			s.Attrs.Children = append(s.Attrs.Children, decoy)
		}
		sig, err := cms.SignAttrs(env.SignerKey, s)
		if err != nil {
			return nil, na
		}
		s.Sig.Content = sig
	case "signed_attrs_without_digest":
		// made by the key holder: signed attributes that lack the messageDigest attribute, or carry it with no value or an
		// empty one, under a good signature; the content may be anything then, so nothing binds it
		if env.SignerKey == nil || s.Attrs == nil || s.Sig == nil || s.Attrs.Opaque {
			return nil, na
		}
		how := rapid.IntRange(0, 2).Draw(t, "how")
		var kept []*der.Node
		found := false
		for _, a := range s.Attrs.Children {
			if a.IsSeq() && len(a.Children) >= 2 && der.EqualOID(a.Children[0], cms.OIDMessageDigest...) {
				found = true
				switch how {
				case 0:
					continue
				case 1:
					kept = append(kept, cms.Attr(cms.OIDMessageDigest, der.Octets(nil)))
				default:
					kept = append(kept, der.Seq(der.OID(cms.OIDMessageDigest...), der.Set()))
				}
				continue
			}
			kept = append(kept, a)
		}
		if !found {
			return nil, na
		}
		s.Attrs.Children = kept
		if sd.EContent0 != nil && rapid.Bool().Draw(t, "other_content") {
			sd.EContent0.Children = []*der.Node{der.Octets(env.NewContent)}
			sd.EContent0.Opaque, sd.EContent0.Content = false, nil
		}
		sig, err := cms.SignAttrs(env.SignerKey, s)
		if err != nil {
			return nil, na
		}
		s.Sig.Content = sig
	case "countersignature_added":
		// what a timestamping service adds: an unauthenticated attribute with a countersignature (PKCS#9, a SignerInfo
		// with or without signed attributes), an RFC 3161 token or a nested signature. Not signed, so it changes nothing.
		if s.Sig == nil {
			return nil, na
		}
		ias := der.Seq(der.Seq(), der.SmallInt(1))
		if s.IAS != nil {
			ias = s.IAS.Clone()
		}
		d := sha256.Sum256(s.Sig.Content)
		signed := der.CtxC(0, cms.Attr(cms.OIDContentType, der.OID(1, 2, 840, 113549, 1, 7, 1)), cms.Attr(cms.OIDSigningTime, der.Prim(23, []byte("240101000000Z"))), cms.Attr(cms.OIDMessageDigest, der.Octets(d[:])))
		var value *der.Node
		oid := []uint64{1, 2, 840, 113549, 1, 9, 6}
		switch rapid.IntRange(0, 5).Draw(t, "countersignature") {
		case 0:
			value = der.Seq(der.SmallInt(1), ias, cms.AlgID(cms.OIDSHA256, true), signed, cms.AlgID(cms.OIDRSA, true), der.Octets(FillBytes(t, 256)))
		case 1: // no signed attributes: the signature is over the countersigned signature value itself
			value = der.Seq(der.SmallInt(1), ias, cms.AlgID(cms.OIDSHA256, true), cms.AlgID(cms.OIDRSA, true), der.Octets(FillBytes(t, 256)))
		case 2: // signed attributes without a signing time
			value = der.Seq(der.SmallInt(1), ias, cms.AlgID(cms.OIDSHA256, true), der.CtxC(0, cms.Attr(cms.OIDMessageDigest, der.Octets(d[:]))), cms.AlgID(cms.OIDRSA, true), der.Octets(FillBytes(t, 256)))
		case 3:
			value = der.SmallInt(7)
		case 4: // RFC 3161 token as Microsoft attaches it
			oid = []uint64{1, 3, 6, 1, 4, 1, 311, 3, 3, 1}
			value = der.Seq(der.OID(1, 2, 840, 113549, 1, 7, 2), der.CtxC(0, der.Seq(der.SmallInt(3), der.Set(), der.Seq(der.OID(1, 2, 840, 113549, 1, 9, 16, 1, 4)), der.Set())))
		default: // nested signature
			oid = []uint64{1, 3, 6, 1, 4, 1, 311, 2, 4, 1}
			value = der.Seq(der.OID(1, 2, 840, 113549, 1, 7, 2), der.CtxC(0, der.Seq()))
		}
		un := cms.Attr(oid, value)
		if s.UnAttrs != nil {
			if s.UnAttrs.Opaque {
				return nil, na
			}
			s.UnAttrs.Children = append(s.UnAttrs.Children, un)
		} else {
			s.Node.Children = append(s.Node.Children, der.CtxC(1, un))
		}
	case "signer_id_key_identifier":
		// CMS allows naming the signer by subjectKeyIdentifier: [0] IMPLICIT OCTET STRING in place of issuerAndSerialNumber
		if s.IAS == nil {
			return nil, na
		}
		var ski []byte
		switch rapid.IntRange(0, 2).Draw(t, "ski") {
		case 0:
			ski = []byte{}
		case 1:
			ski = FillBytes(t, 20)
		default:
			ski = FillBytes(t, rapid.IntRange(1, 40).Draw(t, "skilen"))
		}
		for i, c := range s.Node.Children {
			if c == s.IAS {
				s.Node.Children[i] = &der.Node{Class: der.ClassContext, Tag: 0, Content: ski}
			}
		}
	case "sig_flip":
		if s.Sig == nil || len(s.Sig.Content) == 0 {
			return nil, na
		}
		flipIn(t, s.Sig.Content)
	case "sig_by_other_key":
		if s.Sig == nil || s.Attrs == nil || env.AltKey == nil {
			return nil, na
		}
		v := s.Attrs.Value()
		tbs := append(append([]byte{0x31}, der.EncodeLen(len(v))...), v...)
		h := sha256.Sum256(tbs)
		sig, err := rsa.SignPKCS1v15(nil, env.AltKey, crypto.SHA256, h[:])
		if err != nil {
			return nil, na
		}
		s.Sig.Content = sig
	case "digestalg_change":
		if s.DigestAlg == nil || len(s.DigestAlg.Children) == 0 {
			return nil, na
		}
		s.DigestAlg.Children[0].Content = der.OID(1, 3, 14, 3, 2, 26).Content // SHA-1
	case "sigalg_change":
		if s.SigAlg == nil || len(s.SigAlg.Children) == 0 {
			return nil, na
		}
		s.SigAlg.Children[0].Content = der.OID(cms.OIDSHA256RSA...).Content
	case "sets_emptied":
		// the SET OF fields with nothing in them: no digest algorithms, no signer infos, both (the degenerate
		// certificates-only form `openssl crl2pkcs7 -nocrl` writes), no certificates
		which := rapid.SampledFrom([]int{1, 2, 3, 3, 4, 7}).Draw(t, "emptied")
		for bit, n := range []*der.Node{sd.DigestAlgs, sd.SignerSet, sd.Certs} {
			if which&(1<<uint(bit)) != 0 && n != nil {
				n.Children, n.Content, n.Opaque = nil, nil, false
			}
		}
	case "algorithm_parameters_odd":
		// any AlgorithmIdentifier of the blob (those inside the encapsulated content included) gets parameters of
		// another kind: absent, NULL, an empty OCTET STRING, an INTEGER, an empty SEQUENCE, a NULL with content
		var algs []*der.Node
		var walk func(n *der.Node)
		walk = func(n *der.Node) {
			if n == nil || !n.Constructed || n.Opaque {
				return
			}
			if n.IsSeq() && len(n.Children) >= 1 && len(n.Children) <= 2 && n.Children[0].Is(der.ClassUniversal, der.TagOID) && (len(n.Children) == 1 || !n.Children[1].IsSet()) {
				algs = append(algs, n)
			}
			for _, c := range n.Children {
				walk(c)
			}
		}
		walk(root)
		if len(algs) == 0 {
			return nil, na
		}
		a := algs[rapid.IntRange(0, len(algs)-1).Draw(t, "which_algorithm")]
		params := []*der.Node{nil, der.Null(), der.Octets(nil), der.SmallInt(0), der.Seq(), der.Prim(der.TagNull, []byte{0}), der.OID(1, 2, 840, 113549, 1, 1, 1)}[rapid.IntRange(0, 6).Draw(t, "parameters")]
		a.Children = a.Children[:1]
		if params != nil {
			a.Children = append(a.Children, params)
		}
	case "null_params_toggle":
		for _, a := range []*der.Node{s.DigestAlg, s.SigAlg} {
			if a == nil || !a.IsSeq() {
				continue
			}
			if len(a.Children) > 1 {
				a.Children = a.Children[:1]
			} else {
				a.Children = append(a.Children, der.Null())
			}
		}
	case "second_signer":
		c := s.Node.Clone()
		if cs, err := cms.Locate(der.Seq(der.SmallInt(1), der.Set(), der.Seq(der.OID(cms.OIDData...)), der.Set(c))); err == nil && len(cs.Signers) == 1 && cs.Signers[0].Sig != nil && len(cs.Signers[0].Sig.Content) > 0 {
			cs.Signers[0].Sig.Content[0] ^= 0x55
		}
		if rapid.Bool().Draw(t, "first") {
			sd.SignerSet.Children = append([]*der.Node{c}, sd.SignerSet.Children...)
		} else {
			sd.SignerSet.Children = append(sd.SignerSet.Children, c)
		}
	case "outer_strip":
		if !sd.HasOuter {
			return nil, na
		}
		return sd.Body.Encode(), class
	case "outer_add":
		if sd.HasOuter {
			return nil, na
		}
		return der.Seq(der.OID(cms.OIDSignedData...), der.CtxC(0, sd.Body)).Encode(), class
	default:
		return nil, na
	}
	return root.Encode(), class
}

// NeighbourOID draws an object identifier that lies next to base in the OID tree without being it: a child, a deeper
// node that ends in the same arc, the node above, a sibling.
func NeighbourOID(t *rapid.T, base []uint64) []uint64 {
	last := base[len(base)-1]
	up := append([]uint64{}, base[:len(base)-1]...)
	switch rapid.IntRange(0, 6).Draw(t, "oid_neighbour") {
	case 0:
		return append(append([]uint64{}, base...), uint64(rapid.IntRange(0, 3).Draw(t, "child")))
	case 1:
		return append(append([]uint64{}, base...), last)
	case 2: // the S/MIME id-aa arc below the same parent: ...9.16.2.<last>
		return append(up, 16, 2, last)
	case 3:
		return append(up, 16, uint64(rapid.IntRange(1, 3).Draw(t, "mid")), last)
	case 4:
		return up
	case 5:
		return append(up, last+uint64(rapid.SampledFrom([]int{1, 10, 11, 47, 128, 16384}).Draw(t, "sibling")))
	default: // the same arcs below another root
		return append([]uint64{1, 3, 6, 1, 4, 1, 311, 2}, base[len(base)-2:]...)
	}
}

// SplitContent derives two blobs from a SignedData with encapsulated content whose hashed octets are H: one that
// carries H[:k] and one that carries H[k:] in its place (same element tag, everything else untouched). Neither is what
// the signer committed to (0 < k < len(H)). ok is false when the blob has no such content.
func SplitContent(blob []byte, pick int) (prefix, suffix []byte, k int, ok bool) {
	build := func(part func(h []byte, k int) []byte) ([]byte, int, bool) {
		parsed, err := der.ParseOne(blob, der.Options{})
		if err != nil {
			return nil, 0, false
		}
		root := parsed.Clone()
		sd, err := cms.Locate(root)
		if err != nil || sd.EContent0 == nil || len(sd.EContent0.Children) != 1 {
			return nil, 0, false
		}
		ch := sd.EContent0.Children[0]
		var h []byte
		if !ch.Constructed || ch.Opaque || ch.Children == nil {
			h = append(h, ch.Content...)
		} else {
			for _, g := range ch.Children {
				h = append(h, g.Encode()...)
			}
		}
		if len(h) < 2 {
			return nil, 0, false
		}
		k := 1 + pick%(len(h)-1)
		ch.Children, ch.Content = nil, part(h, k)
		if ch.Constructed {
			ch.Opaque = true
		}
		return root.Encode(), k, true
	}
	var ok1, ok2 bool
	prefix, k, ok1 = build(func(h []byte, k int) []byte { return append([]byte{}, h[:k]...) })
	suffix, _, ok2 = build(func(h []byte, k int) []byte { return append([]byte{}, h[k:]...) })
	return prefix, suffix, k, ok1 && ok2
}
