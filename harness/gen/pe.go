package gen

import (
	"encoding/binary"

	"pgregory.net/rapid"
)

// machines accepted by debug/pe (which the library uses to read headers).
var machines = []uint16{0x8664, 0xaa64, 0x1c4, 0x14c, 0x5032, 0x5064, 0x5128, 0x0}

// PEOpts bounds the generated images.
type PEOpts struct {
	MaxSections    int
	Many           bool // one image in sixteen has 13..48 (small) sections
	OddTable       bool // an existing certificate table may have any length and start unaligned (inputs of hashing only)
	MaxSectionSize int
	MaxTrailing    int
	Table          bool // allow an existing certificate table
	Big            bool // one image in eight is large (tens of KiB) with a section that ends exactly where the hashed stream reaches a multiple of 32 KiB (the chunk size of io.Copy)
}

// DefaultPE is the C01 bound: <= 8 sections, images of a few KiB.
var DefaultPE = PEOpts{MaxSections: 8, MaxSectionSize: 600, MaxTrailing: 64, Table: true, Big: true, Many: true}

// SmallPE gives images of at most ~2 KiB (exhaustive per-byte work, signing).
var SmallPE = PEOpts{MaxSections: 4, MaxSectionSize: 120, MaxTrailing: 24, Table: true}

// PEImage constructs a well-formed PE32 / PE32+ image: DOS header and stub with
// any e_lfanew, COFF header, optional header with 5..18 data directories,
// 0..MaxSections sections whose header order is a random permutation of their
// file order, zero-size sections with arbitrary pointers, optional gaps,
// header padding, trailing data, optionally an existing certificate table at
// the 8-aligned end of the file. Every byte not fixed by the layout is random.
func PEImage(o PEOpts) *rapid.Generator[[]byte] {
	return rapid.Custom(func(t *rapid.T) []byte {
		le := binary.LittleEndian
		pe32 := rapid.Bool().Draw(t, "pe32")
		ndirs := rapid.IntRange(5, 16).Draw(t, "ndirs")
		if rapid.IntRange(0, 9).Draw(t, "manydirs") == 0 {
			ndirs = rapid.IntRange(17, 18).Draw(t, "ndirs2")
		}
		lfanew := 64 + rapid.IntRange(0, 960).Draw(t, "lfanew")
		switch rapid.IntRange(0, 3).Draw(t, "lfalign") {
		case 0:
			lfanew &^= 7
		case 1:
			lfanew = 64
		}
		if o.Many && Chance(t, "hugelfanew", 1, 40) {
			// a DOS stub of 64 KiB and more: e_lfanew does not fit 16 bits
			lfanew = rapid.SampledFrom([]int{0xffc0, 0xfff8, 0x10000, 0x10040, 0x20080}).Draw(t, "lfanew_big")
		}
		optFixed := 112
		if pe32 {
			optFixed = 96
		}
		optSize := optFixed + 8*ndirs
		nsec := rapid.IntRange(0, o.MaxSections).Draw(t, "nsec")
		maxSecSize := o.MaxSectionSize
		if o.Many && rapid.IntRange(0, 15).Draw(t, "manysections") == 0 {
			// more sections than small-slice code paths handle (sorting switches algorithm above 12 elements, ...)
			nsec = rapid.IntRange(13, 48).Draw(t, "nsecmany")
			if maxSecSize > 48 {
				maxSecSize = 48
			}
		}
		optOff := lfanew + 24
		secTable := optOff + optSize
		headersEnd := secTable + 40*nsec
		hdrPad := 0
		switch rapid.IntRange(0, 3).Draw(t, "hdrpadkind") {
		case 0:
			hdrPad = rapid.IntRange(1, 64).Draw(t, "hdrpad")
		case 1:
			hdrPad = (512 - headersEnd%512) % 512
			if hdrPad > 200 {
				hdrPad = hdrPad % 64
			}
		}
		if o.Many && rapid.IntRange(0, 19).Draw(t, "bigheaders") == 0 {
			// headers that do not fit into one page / one sector read: SizeOfHeaders beyond 4 KiB, 8 KiB
			hdrPad = rapid.SampledFrom([]int{4096, 4097, 5000, 8192, 8200}).Draw(t, "sizeofheaders") - headersEnd
			if hdrPad < 0 {
				hdrPad = 0
			}
		}
		sizeOfHeaders := headersEnd + hdrPad
		gaps := rapid.IntRange(0, 3).Draw(t, "gaps") == 0

		big := o.Big && nsec > 0 && rapid.IntRange(0, 7).Draw(t, "bigimage") == 0
		bigAt := 0
		if big {
			bigAt = rapid.IntRange(0, nsec-1).Draw(t, "bigat")
		}
		type sec struct{ ptr, size uint32 }
		secs := make([]sec, nsec)
		cursor := sizeOfHeaders
		for i := range secs {
			if rapid.IntRange(0, 3).Draw(t, "zerosize") == 0 && !(big && i == bigAt) {
				var ptr uint32
				switch rapid.IntRange(0, 3).Draw(t, "zptr") {
				case 0:
					ptr = 0
				case 1:
					ptr = uint32(cursor)
				case 2:
					ptr = 0xfffffff0
				default:
					ptr = rapid.Uint32().Draw(t, "wildptr")
				}
				secs[i] = sec{ptr: ptr, size: 0}
				continue
			}
			if gaps {
				cursor += rapid.IntRange(0, 32).Draw(t, "gap")
			}
			size := rapid.IntRange(1, maxSecSize).Draw(t, "secsize")
			if big && i == bigAt {
				// the section ends at file offset 32768*k + 12: after the 12 excluded header bytes (checksum,
				// directory entry) the hashed stream is then exactly at a multiple of 32 KiB
				k := rapid.IntRange(1, 2).Draw(t, "k32")
				if end := 32768*k + 12; end > cursor {
					size = end - cursor
				}
			}
			secs[i] = sec{ptr: uint32(cursor), size: uint32(size)}
			cursor += size
		}
		trailing := 0
		if rapid.Bool().Draw(t, "hastrailing") {
			trailing = rapid.IntRange(1, o.MaxTrailing).Draw(t, "trailing")
		}
		content := cursor + trailing
		tableSize, tableVA := 0, 0
		zeroPad := 0
		if o.Table && rapid.IntRange(0, 2).Draw(t, "table") == 0 {
			zeroPad = (8 - content%8) % 8
			tableVA = content + zeroPad
			tableSize = 8 * rapid.IntRange(1, 40).Draw(t, "tablesize")
			if o.OddTable && rapid.IntRange(0, 5).Draw(t, "oddtable") == 0 {
				// a table as a careless tool leaves it: any length, possibly without the alignment padding in front
				tableSize = rapid.IntRange(1, 320).Draw(t, "tablesize_any")
				if rapid.Bool().Draw(t, "unpadded") {
					zeroPad = rapid.IntRange(0, zeroPad).Draw(t, "pad_any")
					tableVA = content + zeroPad
				}
			}
		}
		total := content + zeroPad + tableSize
		img := FillBytes(t, total)
		if total <= 16 { // cannot happen (headers alone are larger); keep FillBytes' small path away
			img = make([]byte, total)
		}
		for i := content; i < content+zeroPad; i++ {
			img[i] = 0
		}
		// DOS header
		img[0], img[1] = 'M', 'Z'
		le.PutUint32(img[0x3c:], uint32(lfanew))
		copy(img[lfanew:], "PE\x00\x00")
		coff := lfanew + 4
		le.PutUint16(img[coff:], rapid.SampledFrom(machines).Draw(t, "machine"))
		le.PutUint16(img[coff+2:], uint16(nsec))
		le.PutUint32(img[coff+8:], 0) // PointerToSymbolTable
		le.PutUint16(img[coff+16:], uint16(optSize))
		if pe32 {
			le.PutUint16(img[optOff:], 0x10b)
			le.PutUint32(img[optOff+92:], uint32(ndirs))
		} else {
			le.PutUint16(img[optOff:], 0x20b)
			le.PutUint32(img[optOff+108:], uint32(ndirs))
		}
		le.PutUint32(img[optOff+60:], uint32(sizeOfHeaders))
		dd4 := optOff + optFixed + 32
		if tableSize != 0 {
			le.PutUint32(img[dd4:], uint32(tableVA))
			le.PutUint32(img[dd4+4:], uint32(tableSize))
		} else {
			va := uint32(0)
			if rapid.IntRange(0, 7).Draw(t, "stale_va") == 0 {
				va = rapid.Uint32().Draw(t, "va")
			}
			le.PutUint32(img[dd4:], va)
			le.PutUint32(img[dd4+4:], 0)
		}
		// section table in a permuted order
		order := rapid.Permutation(seq(nsec)).Draw(t, "hdrorder")
		for slot, idx := range order {
			h := img[secTable+40*slot:]
			if h[0] == '/' {
				h[0] = '.'
			}
			le.PutUint32(h[16:], secs[idx].size)
			le.PutUint32(h[20:], secs[idx].ptr)
			if rapid.IntRange(0, 5).Draw(t, "other_fields_at_boundaries") == 0 {
				// the header fields the digest does not depend on (the section's bytes in the file are SizeOfRawData at
				// PointerToRawData, whatever the loader is told about memory) take the values code likes to test for
				le.PutUint32(h[8:], rapid.SampledFrom([]uint32{0, 0, 1, secs[idx].size, secs[idx].size + 1, 0xffffffff}).Draw(t, "virtualsize"))
				le.PutUint32(h[12:], rapid.SampledFrom([]uint32{0, 0x1000, secs[idx].ptr, 0xfffff000}).Draw(t, "virtualaddress"))
				le.PutUint32(h[36:], rapid.SampledFrom([]uint32{0, 0x20, 0x40, 0x80, 0x60000020, 0xc0000080, 0x02000000, 0xffffffff}).Draw(t, "characteristics"))
			}
			le.PutUint16(h[32:], 0) // NumberOfRelocations (debug/pe allocates 10 bytes per declared relocation: known finding of C13)
		}
		return img
	})
}

func seq(n int) []int {
	s := make([]int, n)
	for i := range s {
		s[i] = i
	}
	return s
}
