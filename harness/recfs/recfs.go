// Package recfs is a recording and fault-injecting afero.Fs: every Fs and
// File call is logged with its arguments, and the k-th call can be made to
// fail (error, short write, short read). It is the dependency boundary at
// which C11 and C15 observe the library.
package recfs

import (
	"errors"
	"fmt"
	"io"
	"os"
	"sync"
	"syscall"
	"time"

	"github.com/spf13/afero"
)

// ErrInjected is the sentinel returned by injected faults.
var ErrInjected = errors.New("recfs: injected fault")

// Event is one recorded call.
type Event struct {
	Seq   int    // position in the sequence of fallible calls (1-based), 0 for calls that are not fault points
	Op    string // Fs.OpenFile, Fs.Open, Fs.Create, Fs.Stat, File.Write, File.Read, File.Close, File.Stat, ...
	Path  string
	Flags int
	Perm  os.FileMode
	Data  []byte // buffer passed to Write
	N     int    // bytes returned
	Err   string
}

// Fault describes an injected failure.
type Fault struct {
	At int // fail the At-th fallible call (1-based); 0 = none
	// Cause selects the error value of an "error" fault: "" = ErrInjected, or an errno the way the os package reports
	// it (EINTR, EAGAIN, EIO, ENOSPC, EACCES: *os.PathError wrapping the syscall.Errno)
	Cause string
	Kind  string // "error" | "short" (short write/read: half the bytes, nil error for writes, io.ErrUnexpectedEOF for reads) | "short_ok" (read: fewer bytes, nil error: legal for an io.Reader)
}

// injected returns the error value of a fault on op/path.
func (f *FS) injected(op, path string) error {
	var errno syscall.Errno
	switch f.Fault.Cause {
	case "EINTR":
		errno = syscall.EINTR
	case "EAGAIN":
		errno = syscall.EAGAIN
	case "EIO":
		errno = syscall.EIO
	case "ENOSPC":
		errno = syscall.ENOSPC
	case "EACCES":
		errno = syscall.EACCES
	default:
		return ErrInjected
	}
	return &os.PathError{Op: op, Path: path, Err: errno}
}

// FS wraps an afero.Fs.
type FS struct {
	Inner afero.Fs
	mu    sync.Mutex
	Log   []Event
	Fault Fault
	seq   int
	Fired bool // the fault was injected
	name  string
	// ReadChunk > 0 makes every File.Read return at most that many bytes (legal io.Reader behaviour, not a fault)
	ReadChunk int
}

// New wraps inner; name is what Name() reports.
func New(inner afero.Fs, name string) *FS { return &FS{Inner: inner, name: name} }

func (f *FS) point(op, path string) (seq int, fail bool) {
	f.mu.Lock()
	defer f.mu.Unlock()
	f.seq++
	if f.Fault.At == f.seq {
		f.Fired = true
		return f.seq, true
	}
	return f.seq, false
}

func (f *FS) rec(e Event) {
	f.mu.Lock()
	f.Log = append(f.Log, e)
	f.mu.Unlock()
}

// Points returns the number of fallible calls seen so far.
func (f *FS) Points() int { f.mu.Lock(); defer f.mu.Unlock(); return f.seq }

// Events returns a copy of the log.
func (f *FS) Events() []Event { f.mu.Lock(); defer f.mu.Unlock(); return append([]Event{}, f.Log...) }

func errStr(err error) string {
	if err == nil {
		return ""
	}
	return err.Error()
}

func (f *FS) Name() string { return f.name }

func (f *FS) open(op, name string, flag int, perm os.FileMode, do func() (afero.File, error)) (afero.File, error) {
	seq, fail := f.point(op, name)
	if fail {
		f.rec(Event{Seq: seq, Op: op, Path: name, Flags: flag, Perm: perm, Err: ErrInjected.Error()})
		if f.Fault.Cause != "" {
			return nil, f.injected("open", name)
		}
		return nil, &os.PathError{Op: "open", Path: name, Err: ErrInjected}
	}
	file, err := do()
	f.rec(Event{Seq: seq, Op: op, Path: name, Flags: flag, Perm: perm, Err: errStr(err)})
	if err != nil {
		return nil, err
	}
	return &File{File: file, fs: f, path: name}, nil
}

func (f *FS) Create(name string) (afero.File, error) {
	return f.open("Fs.Create", name, os.O_RDWR|os.O_CREATE|os.O_TRUNC, 0666, func() (afero.File, error) { return f.Inner.Create(name) })
}
func (f *FS) Open(name string) (afero.File, error) {
	return f.open("Fs.Open", name, os.O_RDONLY, 0, func() (afero.File, error) { return f.Inner.Open(name) })
}
func (f *FS) OpenFile(name string, flag int, perm os.FileMode) (afero.File, error) {
	return f.open("Fs.OpenFile", name, flag, perm, func() (afero.File, error) { return f.Inner.OpenFile(name, flag, perm) })
}
func (f *FS) Mkdir(name string, perm os.FileMode) error {
	err := f.Inner.Mkdir(name, perm)
	f.rec(Event{Op: "Fs.Mkdir", Path: name, Perm: perm, Err: errStr(err)})
	return err
}
func (f *FS) MkdirAll(path string, perm os.FileMode) error {
	err := f.Inner.MkdirAll(path, perm)
	f.rec(Event{Op: "Fs.MkdirAll", Path: path, Perm: perm, Err: errStr(err)})
	return err
}
func (f *FS) Remove(name string) error {
	err := f.Inner.Remove(name)
	f.rec(Event{Op: "Fs.Remove", Path: name, Err: errStr(err)})
	return err
}
func (f *FS) RemoveAll(path string) error {
	err := f.Inner.RemoveAll(path)
	f.rec(Event{Op: "Fs.RemoveAll", Path: path, Err: errStr(err)})
	return err
}
func (f *FS) Rename(o, n string) error {
	err := f.Inner.Rename(o, n)
	f.rec(Event{Op: "Fs.Rename", Path: o + " -> " + n, Err: errStr(err)})
	return err
}
func (f *FS) Stat(name string) (os.FileInfo, error) {
	seq, fail := f.point("Fs.Stat", name)
	if fail {
		f.rec(Event{Seq: seq, Op: "Fs.Stat", Path: name, Err: ErrInjected.Error()})
		if f.Fault.Cause != "" {
			return nil, f.injected("stat", name)
		}
		return nil, &os.PathError{Op: "stat", Path: name, Err: ErrInjected}
	}
	fi, err := f.Inner.Stat(name)
	f.rec(Event{Seq: seq, Op: "Fs.Stat", Path: name, Err: errStr(err)})
	return fi, err
}
func (f *FS) Chmod(name string, mode os.FileMode) error {
	err := f.Inner.Chmod(name, mode)
	f.rec(Event{Op: "Fs.Chmod", Path: name, Perm: mode, Err: errStr(err)})
	return err
}
func (f *FS) Chown(name string, uid, gid int) error {
	err := f.Inner.Chown(name, uid, gid)
	f.rec(Event{Op: "Fs.Chown", Path: name, Err: errStr(err)})
	return err
}
func (f *FS) Chtimes(name string, a, m time.Time) error {
	err := f.Inner.Chtimes(name, a, m)
	f.rec(Event{Op: "Fs.Chtimes", Path: name, Err: errStr(err)})
	return err
}

// File wraps an afero.File.
type File struct {
	afero.File
	fs   *FS
	path string
}

func (fl *File) Close() error {
	seq, fail := fl.fs.point("File.Close", fl.path)
	err := fl.File.Close()
	if fail {
		err = fl.fs.injected("close", fl.path)
	}
	fl.fs.rec(Event{Seq: seq, Op: "File.Close", Path: fl.path, Err: errStr(err)})
	return err
}

func (fl *File) Write(p []byte) (int, error) {
	seq, fail := fl.fs.point("File.Write", fl.path)
	data := append([]byte{}, p...)
	if fail {
		if fl.fs.Fault.Kind == "short1" && len(p) > 0 {
			n, _ := fl.File.Write(p[:len(p)-1])
			fl.fs.rec(Event{Seq: seq, Op: "File.Write", Path: fl.path, Data: data, N: n, Err: "short write, last byte not written (injected)"})
			return n, nil
		}
		if fl.fs.Fault.Kind == "short" && len(p) > 0 {
			n, _ := fl.File.Write(p[:len(p)/2])
			fl.fs.rec(Event{Seq: seq, Op: "File.Write", Path: fl.path, Data: data, N: n, Err: "short write (injected)"})
			return n, nil
		}
		fl.fs.rec(Event{Seq: seq, Op: "File.Write", Path: fl.path, Data: data, Err: ErrInjected.Error()})
		return 0, fl.fs.injected("write", fl.path)
	}
	n, err := fl.File.Write(p)
	fl.fs.rec(Event{Seq: seq, Op: "File.Write", Path: fl.path, Data: data, N: n, Err: errStr(err)})
	return n, err
}

func (fl *File) WriteString(s string) (int, error) {
	n, err := fl.File.WriteString(s)
	fl.fs.rec(Event{Op: "File.WriteString", Path: fl.path, Data: []byte(s), N: n, Err: errStr(err)})
	return n, err
}

func (fl *File) WriteAt(p []byte, off int64) (int, error) {
	n, err := fl.File.WriteAt(p, off)
	fl.fs.rec(Event{Op: fmt.Sprintf("File.WriteAt@%d", off), Path: fl.path, Data: append([]byte{}, p...), N: n, Err: errStr(err)})
	return n, err
}

func (fl *File) Truncate(size int64) error {
	err := fl.File.Truncate(size)
	fl.fs.rec(Event{Op: fmt.Sprintf("File.Truncate(%d)", size), Path: fl.path, Err: errStr(err)})
	return err
}

func (fl *File) Read(p []byte) (int, error) {
	seq, fail := fl.fs.point("File.Read", fl.path)
	if fail && fl.fs.Fault.Kind == "short_ok" {
		q := p
		if len(q) > 1 {
			q = q[:len(q)/2]
		}
		n, err := fl.File.Read(q)
		fl.fs.rec(Event{Seq: seq, Op: "File.Read", Path: fl.path, N: n, Err: "short read without error (injected): " + errStr(err)})
		return n, err
	}
	if !fail && fl.fs.ReadChunk > 0 && len(p) > fl.fs.ReadChunk {
		p = p[:fl.fs.ReadChunk]
	}
	if fail {
		if fl.fs.Fault.Kind == "short" && len(p) > 1 {
			n, _ := fl.File.Read(p[:len(p)/2])
			fl.fs.rec(Event{Seq: seq, Op: "File.Read", Path: fl.path, N: n, Err: "short read + io.ErrUnexpectedEOF (injected)"})
			return n, io.ErrUnexpectedEOF
		}
		fl.fs.rec(Event{Seq: seq, Op: "File.Read", Path: fl.path, Err: ErrInjected.Error()})
		return 0, fl.fs.injected("read", fl.path)
	}
	n, err := fl.File.Read(p)
	fl.fs.rec(Event{Seq: seq, Op: "File.Read", Path: fl.path, N: n, Err: errStr(err)})
	return n, err
}

func (fl *File) ReadAt(p []byte, off int64) (int, error) {
	seq, fail := fl.fs.point("File.ReadAt", fl.path)
	if fail {
		fl.fs.rec(Event{Seq: seq, Op: "File.ReadAt", Path: fl.path, Err: ErrInjected.Error()})
		return 0, fl.fs.injected("read", fl.path)
	}
	n, err := fl.File.ReadAt(p, off)
	fl.fs.rec(Event{Seq: seq, Op: "File.ReadAt", Path: fl.path, N: n, Err: errStr(err)})
	return n, err
}

func (fl *File) Stat() (os.FileInfo, error) {
	seq, fail := fl.fs.point("File.Stat", fl.path)
	if fail {
		fl.fs.rec(Event{Seq: seq, Op: "File.Stat", Path: fl.path, Err: ErrInjected.Error()})
		return nil, fl.fs.injected("stat", fl.path)
	}
	fi, err := fl.File.Stat()
	fl.fs.rec(Event{Seq: seq, Op: "File.Stat", Path: fl.path, Err: errStr(err)})
	return fi, err
}

func (fl *File) Sync() error {
	err := fl.File.Sync()
	fl.fs.rec(Event{Op: "File.Sync", Path: fl.path, Err: errStr(err)})
	return err
}
