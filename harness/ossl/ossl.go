// Package ossl wraps the openssl CLI as an optional differential oracle. The
// checks must decide their property without it; availability is recorded.
package ossl

import (
	"bytes"
	"fmt"
	"os"
	"os/exec"
	"path/filepath"
	"sync"
	"sync/atomic"
)

var (
	once sync.Once
	bin  string
	dir  string
	seq  atomic.Int64
)

func setup() {
	b := os.Getenv("VERIF_OPENSSL")
	if b == "" {
		return
	}
	if _, err := os.Stat(b); err != nil {
		return
	}
	root := os.Getenv("VERIF_ROOT")
	if root == "" {
		root = "/verif"
	}
	d := filepath.Join(root, ".work", "ossl", fmt.Sprintf("p%d", os.Getpid()))
	if err := os.MkdirAll(d, 0755); err != nil {
		return
	}
	bin, dir = b, d
}

// Available reports whether the CLI can be used.
func Available() bool { once.Do(setup); return bin != "" }

// Cleanup removes the scratch directory of this process.
func Cleanup() {
	if dir != "" {
		os.RemoveAll(dir)
	}
}

func tmp(name string, data []byte) (string, error) {
	p := filepath.Join(dir, fmt.Sprintf("%d-%s", seq.Add(1), name))
	if err := os.MkdirAll(dir, 0755); err != nil {
		return p, err
	}
	return p, os.WriteFile(p, data, 0600)
}

// Run executes openssl with the arguments; files maps placeholder -> content:
// every argument equal to a placeholder is replaced by the path of a scratch
// file holding the content. It returns stdout, stderr and the error.
func Run(files map[string][]byte, args ...string) ([]byte, []byte, error) {
	once.Do(setup)
	if bin == "" {
		return nil, nil, fmt.Errorf("openssl not available")
	}
	var made []string
	defer func() {
		for _, p := range made {
			os.Remove(p)
		}
	}()
	real := make([]string, len(args))
	paths := map[string]string{}
	for i, a := range args {
		if data, ok := files[a]; ok {
			p, have := paths[a]
			if !have {
				var err error
				p, err = tmp(filepath.Base(a), data)
				if err != nil {
					return nil, nil, err
				}
				made = append(made, p)
				paths[a] = p
			}
			real[i] = p
		} else {
			real[i] = a
		}
	}
	cmd := exec.Command(bin, real...)
	var so, se bytes.Buffer
	cmd.Stdout, cmd.Stderr = &so, &se
	cmd.Env = append(os.Environ(), "OPENSSL_CONF=/dev/null")
	err := cmd.Run()
	return so.Bytes(), se.Bytes(), err
}

// SmimeVerify runs `openssl smime -verify -noverify -binary -inform DER` on a
// signature; content is passed with -content when detached. It reports
// acceptance and the recovered content.
func SmimeVerify(sig, content []byte, detached bool) (bool, []byte, string) {
	args := []string{"smime", "-verify", "-noverify", "-binary", "-inform", "DER", "-in", "@sig"}
	files := map[string][]byte{"@sig": sig}
	if detached {
		args = append(args, "-content", "@content")
		files["@content"] = content
	}
	out, se, err := Run(files, args...)
	return err == nil, out, string(se)
}

// CmsVerify runs `openssl cms -verify -noverify -binary -inform DER`.
func CmsVerify(sig, content []byte, detached bool) (bool, []byte, string) {
	args := []string{"cms", "-verify", "-noverify", "-binary", "-inform", "DER", "-in", "@sig"}
	files := map[string][]byte{"@sig": sig}
	if detached {
		args = append(args, "-content", "@content")
		files["@content"] = content
	}
	out, se, err := Run(files, args...)
	return err == nil, out, string(se)
}

// SignOpts selects the producer configuration.
type SignOpts struct {
	CMS        bool // openssl cms (else openssl smime)
	NoDetach   bool
	NoSMIMECap bool
	NoCerts    bool
	CAdES      bool // cms only
	Receipt    bool // cms only: signed receipt request attribute
	NoAttr     bool
	TypedOID   string // cms only: -econtent_type <oid> (a content type other than id-data; the CLI then writes SignedData version 3)
}

// Name is a short label of the configuration.
func (o SignOpts) Name() string {
	n := "smime"
	if o.CMS {
		n = "cms"
	}
	for _, f := range []struct {
		on bool
		s  string
	}{{o.NoDetach, "nodetach"}, {o.NoSMIMECap, "nosmimecap"}, {o.NoCerts, "nocerts"}, {o.CAdES, "cades"}, {o.Receipt, "receipt"}, {o.NoAttr, "noattr"}, {o.TypedOID != "", "econtent_type"}} {
		if f.on {
			n += "-" + f.s
		}
	}
	return n
}

// Sign produces a DER signature over content with the CLI.
func Sign(keyPEM, certPEM, content []byte, o SignOpts) ([]byte, error) {
	cmd := "smime"
	if o.CMS {
		cmd = "cms"
	}
	args := []string{cmd, "-sign", "-binary", "-md", "sha256", "-in", "@content", "-signer", "@cert.pem", "-inkey", "@key.pem", "-outform", "DER"}
	if o.NoDetach {
		args = append(args, "-nodetach")
	}
	if o.NoSMIMECap {
		args = append(args, "-nosmimecap")
	}
	if o.NoCerts {
		args = append(args, "-nocerts")
	}
	if o.NoAttr {
		args = append(args, "-noattr")
	}
	if o.TypedOID != "" && o.CMS {
		args = append(args, "-econtent_type", o.TypedOID)
	}
	if o.CMS && o.CAdES {
		args = append(args, "-cades")
	}
	if o.CMS && o.Receipt {
		args = append(args, "-receipt_request_to", "verif@example.invalid")
	}
	out, se, err := Run(map[string][]byte{"@content": content, "@cert.pem": certPEM, "@key.pem": keyPEM}, args...)
	if err != nil {
		return nil, fmt.Errorf("openssl %s -sign: %v: %s", cmd, err, se)
	}
	return out, nil
}
