// Package hx is the common plumbing of every property check: counters and
// class histograms that become the evidence file, case journaling (so a case
// that kills the process can be identified), failure capture (the shrunk case is
// written as a plain JSON replay file) and replay.
//
// Environment (all set by /verif/check):
//
//	VERIF_STATS    path of the JSON statistics dump written when the test ends
//	VERIF_CASEFILE path the failing (shrunk) case is written to
//	VERIF_JOURNAL  path the case about to be executed is written to
//	VERIF_REPLAY   path of a replay file, or of a directory of replay files
//	VERIF_KNOWN    path of known_findings.json
//	VERIF_TIER     quick | thorough
package hx

import (
	"bytes"
	"crypto/sha256"
	"encoding/binary"
	"encoding/hex"
	"encoding/json"
	"fmt"
	"io"
	"os"
	"path/filepath"
	"runtime"
	"runtime/debug"
	"sort"
	"strconv"
	"strings"
	"sync"
	"testing"

	"pgregory.net/rapid"
)

// Hex is a byte string that is written as hexadecimal text in case files.
type Hex []byte

func (h Hex) MarshalJSON() ([]byte, error) { return json.Marshal(hex.EncodeToString(h)) }
func (h *Hex) UnmarshalJSON(b []byte) error {
	var s string
	if err := json.Unmarshal(b, &s); err != nil {
		return err
	}
	d, err := hex.DecodeString(s)
	if err != nil {
		return err
	}
	*h = d
	return nil
}

const maxFingerprints = 400000
const maxSamples = 4

type stats struct {
	mu          sync.Mutex
	Evaluations int64
	Nontrivial  int64
	Classes     map[string]int64
	Known       map[string]int64
	Excluded    map[string]int64
	Extra       map[string]any
	fps         map[uint64]struct{}
	fpOverflow  int64
	samples     []json.RawMessage
}

var st = newStats()

func newStats() *stats {
	return &stats{Classes: map[string]int64{}, Known: map[string]int64{}, Excluded: map[string]int64{}, Extra: map[string]any{}, fps: map[uint64]struct{}{}}
}

// Eval counts one executed case.
func Eval() { st.mu.Lock(); st.Evaluations++; st.mu.Unlock() }

// EvalN counts n executed cases.
func EvalN(n int) { st.mu.Lock(); st.Evaluations += int64(n); st.mu.Unlock() }

// Class adds one to a histogram bucket.
func Class(name string) { st.mu.Lock(); st.Classes[name]++; st.mu.Unlock() }

// ClassN adds n to a histogram bucket.
func ClassN(name string, n int) { st.mu.Lock(); st.Classes[name] += int64(n); st.mu.Unlock() }

// Excluded counts a case (or part of one) that was excluded by construction.
func Excluded(name string) { st.mu.Lock(); st.Excluded[name]++; st.mu.Unlock() }

// KnownHit counts an outcome that matched a listed known finding.
func KnownHit(id string) { st.mu.Lock(); st.Known[id]++; st.mu.Unlock() }

// SetExtra stores a free-form value in the statistics dump.
func SetExtra(k string, v any) { st.mu.Lock(); st.Extra[k] = v; st.mu.Unlock() }

// AddExtra adds n to an integer valued extra.
func AddExtra(k string, n int64) {
	st.mu.Lock()
	cur, _ := st.Extra[k].(int64)
	st.Extra[k] = cur + n
	st.mu.Unlock()
}

// Fingerprint hashes the parts into 64 bits.
func Fingerprint(parts ...[]byte) uint64 {
	h := sha256.New()
	var l [8]byte
	for _, p := range parts {
		binary.LittleEndian.PutUint64(l[:], uint64(len(p)))
		h.Write(l[:])
		h.Write(p)
	}
	return binary.LittleEndian.Uint64(h.Sum(nil)[:8])
}

// NonTrivial records a case that is non-trivial by the property's stated rule;
// distinctness is decided on the fingerprint of the given parts.
func NonTrivial(parts ...[]byte) {
	fp := Fingerprint(parts...)
	st.mu.Lock()
	st.Nontrivial++
	if _, ok := st.fps[fp]; !ok {
		if len(st.fps) < maxFingerprints {
			st.fps[fp] = struct{}{}
		} else {
			st.fpOverflow++
		}
	}
	st.mu.Unlock()
}

// Sample keeps up to maxSamples cases for the evidence file.
func Sample(v any) {
	st.mu.Lock()
	defer st.mu.Unlock()
	if len(st.samples) >= maxSamples {
		return
	}
	b, err := json.Marshal(v)
	if err != nil {
		return
	}
	if len(b) > 6000 {
		b, _ = json.Marshal(map[string]any{"truncated_case_json_prefix": string(b[:6000])})
	}
	st.samples = append(st.samples, b)
}

// WantSample says whether more samples are wanted (avoids building them).
func WantSample() bool { st.mu.Lock(); defer st.mu.Unlock(); return len(st.samples) < maxSamples }

// Dump writes the statistics to $VERIF_STATS.
func Dump() {
	p := os.Getenv("VERIF_STATS")
	if p == "" {
		return
	}
	st.mu.Lock()
	defer st.mu.Unlock()
	fps := make([]string, 0, len(st.fps))
	for f := range st.fps {
		fps = append(fps, fmt.Sprintf("%016x", f))
	}
	sort.Strings(fps)
	out := map[string]any{
		"evaluations":          st.Evaluations,
		"nontrivial_total":     st.Nontrivial,
		"classes":              st.Classes,
		"known_hits":           st.Known,
		"excluded":             st.Excluded,
		"extra":                st.Extra,
		"fingerprints":         fps,
		"fingerprint_overflow": st.fpOverflow,
		"samples":              st.samples,
	}
	b, _ := json.Marshal(out)
	tmp := p + ".tmp"
	if err := os.WriteFile(tmp, b, 0644); err == nil {
		os.Rename(tmp, p)
	}
}

// Tier returns "quick" or "thorough".
func Tier() string {
	if os.Getenv("VERIF_TIER") == "thorough" {
		return "thorough"
	}
	return "quick"
}

// Thorough reports whether the thorough tier is running.
func Thorough() bool { return Tier() == "thorough" }

// ---------------------------------------------------------------------------

// CaseFile is the replay file format.
type CaseFile struct {
	Property string `json:"property"`
	Error    string `json:"error,omitempty"`
	Note     string `json:"note,omitempty"`
	// Env holds the process settings the case was executed under where they differ from the default (one shard of every
	// check runs on a single CPU); a replay puts them in place first.
	Env  map[string]string `json:"env,omitempty"`
	Case json.RawMessage   `json:"case"`
}

var caseEnvVars = []string{"GOMAXPROCS", "VERIF_ARCH"}

func currentEnv() map[string]string {
	var m map[string]string
	for _, k := range caseEnvVars {
		if v := os.Getenv(k); v != "" {
			if m == nil {
				m = map[string]string{}
			}
			m[k] = v
		}
	}
	return m
}

// applyEnv puts the settings of a case file in place and returns the function that undoes it.
func applyEnv(env map[string]string) func() {
	var undo []func()
	for _, k := range caseEnvVars {
		v, ok := env[k]
		if !ok {
			continue
		}
		old, had := os.LookupEnv(k)
		os.Setenv(k, v) // sandbox workers inherit it
		k := k
		undo = append(undo, func() {
			if had {
				os.Setenv(k, old)
			} else {
				os.Unsetenv(k)
			}
		})
		if k == "GOMAXPROCS" {
			if n, err := strconv.Atoi(v); err == nil && n > 0 {
				prev := runtime.GOMAXPROCS(n)
				undo = append(undo, func() { runtime.GOMAXPROCS(prev) })
			}
		}
	}
	return func() {
		for i := len(undo) - 1; i >= 0; i-- {
			undo[i]()
		}
	}
}

func writeCase(path, property string, c any, errText string) {
	if path == "" {
		return
	}
	cb, err := json.Marshal(c)
	if err != nil {
		cb, _ = json.Marshal(fmt.Sprintf("unmarshallable case: %v", err))
	}
	b, _ := json.MarshalIndent(CaseFile{Property: property, Error: errText, Env: currentEnv(), Case: cb}, "", " ")
	tmp := path + ".tmp"
	if err := os.WriteFile(tmp, b, 0644); err == nil {
		os.Rename(tmp, path)
	}
}

// Safely runs f and turns a panic into an error that names the panic site.
func Safely(f func() error) (err error) {
	defer func() {
		if r := recover(); r != nil {
			err = fmt.Errorf("panic: %v\n%s", r, trimStack(debug.Stack()))
		}
	}()
	return f()
}

func trimStack(s []byte) string {
	lines := strings.Split(string(s), "\n")
	if len(lines) > 40 {
		lines = lines[:40]
	}
	return strings.Join(lines, "\n")
}

// Checker ties a generator and a deterministic case check together.
type Checker[C any] struct {
	Property string
	Gen      func(*rapid.T) C
	Check    func(C) error
	// ManualEval: Check counts its evaluations itself (several inputs per case).
	ManualEval bool
	// Journal makes every case be written out before it is executed, so that a
	// case that terminates the process can be recovered by the driver.
	Journal bool
}

// Rapid runs the generated search.
func (c Checker[C]) Rapid(t *testing.T) {
	defer Dump()
	casefile := os.Getenv("VERIF_CASEFILE")
	journal := os.Getenv("VERIF_JOURNAL")
	rapid.Check(t, func(rt *rapid.T) {
		cs := c.Gen(rt)
		if c.Journal && journal != "" {
			writeCase(journal, c.Property, cs, "journal: case was being executed when the process ended")
		}
		if !c.ManualEval {
			Eval()
		}
		err := Safely(func() error { return c.Check(cs) })
		if err != nil {
			writeCase(casefile, c.Property, cs, err.Error())
			rt.Fatalf("%s violated: %v", c.Property, err)
		}
	})
}

// Replay runs every case file named by $VERIF_REPLAY (file or directory)
// through Check, bypassing rapid. A failing replay writes $VERIF_CASEFILE.
func (c Checker[C]) Replay(t *testing.T) {
	defer Dump()
	p := os.Getenv("VERIF_REPLAY")
	if p == "" {
		t.Skip("no VERIF_REPLAY")
	}
	var files []string
	if fi, err := os.Stat(p); err == nil && fi.IsDir() {
		m, _ := filepath.Glob(filepath.Join(p, "*.json"))
		sort.Strings(m)
		files = m
	} else {
		files = []string{p}
	}
	for _, f := range files {
		b, err := os.ReadFile(f)
		if err != nil {
			t.Fatalf("replay %s: %v", f, err)
		}
		var cf CaseFile
		if err := json.Unmarshal(b, &cf); err != nil {
			t.Fatalf("replay %s: %v", f, err)
		}
		var cs C
		if err := json.Unmarshal(cf.Case, &cs); err != nil {
			t.Fatalf("replay %s: case does not decode: %v", f, err)
		}
		if c.Journal {
			writeCase(os.Getenv("VERIF_JOURNAL"), c.Property, cs, "journal: case was being executed when the process ended")
		}
		if !c.ManualEval {
			Eval()
		}
		Class("replayed")
		restore := applyEnv(cf.Env)
		err = Safely(func() error { return c.Check(cs) })
		restore()
		if err != nil {
			writeCase(os.Getenv("VERIF_CASEFILE"), c.Property, cs, err.Error())
			fmt.Printf("REPLAY-FAIL file=%s\n", f)
			t.Errorf("%s violated by %s: %v", c.Property, f, err)
		} else {
			fmt.Printf("REPLAY-OK file=%s\n", f)
		}
	}
}

// ---------------------------------------------------------------------------
// known findings

// Finding is one entry of known_findings.json.
type Finding struct {
	Status   string            `json:"status"` // "known" | "fixed"
	Property string            `json:"property"`
	ID       string            `json:"id"`
	Match    map[string]string `json:"match,omitempty"`
	What     string            `json:"what"`
	Commit   string            `json:"commit,omitempty"`
	Example  string            `json:"example,omitempty"`
}

var (
	knownOnce sync.Once
	known     []Finding
)

func loadKnown() {
	p := os.Getenv("VERIF_KNOWN")
	if p == "" {
		return
	}
	b, err := os.ReadFile(p)
	if err != nil {
		return
	}
	var all struct {
		Findings []Finding `json:"findings"`
	}
	if json.Unmarshal(b, &all) != nil {
		return
	}
	for _, f := range all.Findings {
		if f.Status == "known" {
			known = append(known, f)
		}
	}
}

// IsKnown reports whether an observed failure with the given attributes
// matches a listed (status "known") finding of the property: every key of the
// entry's match must be present in attrs with a value that contains it.
func IsKnown(property string, attrs map[string]string) (string, bool) {
	knownOnce.Do(loadKnown)
	for _, f := range known {
		if f.Property != property || len(f.Match) == 0 {
			continue
		}
		ok := true
		for k, v := range f.Match {
			if !strings.Contains(attrs[k], v) {
				ok = false
				break
			}
		}
		if ok {
			return f.ID, true
		}
	}
	return "", false
}

// RepoFile reads a file of the repository under test (fixtures); ok is false
// when it does not exist.
func RepoFile(rel string) ([]byte, bool) {
	root := os.Getenv("VERIF_REPO")
	if root == "" {
		root = "/repo"
	}
	b, err := os.ReadFile(filepath.Join(root, rel))
	if err != nil {
		return nil, false
	}
	return b, true
}

// ---------------------------------------------------------------------------
// native fuzzing glue

// FuzzCase is the replay form of a native fuzz input.
type FuzzCase struct {
	FuzzTarget string
	Args       []Hex
}

// FuzzBody wraps a byte-level oracle as the body of a native fuzz target: on
// a failure the input is written to $VERIF_CASEFILE as a FuzzCase.
func FuzzBody(property, target string, f func([]byte) error) func(*testing.T, []byte) {
	return func(t *testing.T, in []byte) {
		err := Safely(func() error { return f(in) })
		if err != nil {
			writeCase(os.Getenv("VERIF_CASEFILE"), property, FuzzCase{FuzzTarget: target, Args: []Hex{append([]byte{}, in...)}}, err.Error())
			t.Fatalf("%s violated: %v", property, err)
		}
	}
}

// FuzzReplay replays a FuzzCase file named by $VERIF_REPLAY through the same oracle.
func FuzzReplay(t *testing.T, property string, targets map[string]func([]byte) error) {
	c := Checker[FuzzCase]{Property: property, Check: func(fc FuzzCase) error {
		f, ok := targets[fc.FuzzTarget]
		if !ok {
			return fmt.Errorf("bad case: unknown fuzz target %q", fc.FuzzTarget)
		}
		var in []byte
		if len(fc.Args) > 0 {
			in = fc.Args[0]
		}
		return f(in)
	}, Journal: true}
	c.Replay(t)
}

// FixedInputs runs a byte-level oracle over fixed inputs (repository fixtures)
// before the generated search; a failure is written as a FuzzCase replay file.
func FixedInputs(t *testing.T, property, target string, inputs map[string][]byte, f func([]byte) error) {
	names := make([]string, 0, len(inputs))
	for n := range inputs {
		names = append(names, n)
	}
	sort.Strings(names)
	for _, n := range names {
		in := inputs[n]
		Eval()
		Class("fixture")
		if err := Safely(func() error { return f(in) }); err != nil {
			writeCase(os.Getenv("VERIF_CASEFILE"), property, FuzzCase{FuzzTarget: target, Args: []Hex{in}}, fmt.Sprintf("fixture %s: %v", n, err))
			Dump()
			t.Fatalf("%s violated by fixture %s: %v", property, n, err)
		}
	}
}

// WriteFailure writes a failing case to $VERIF_CASEFILE (for fixed, non-generated cases).
func WriteFailure(property string, c any, errText string) {
	writeCase(os.Getenv("VERIF_CASEFILE"), property, c, errText)
}

// PlainReader hides every method of a reader except Read (no ReadByte, ReadAt,
// Len, WriteTo): decoders must not depend on, or be confused by, reader extras.
type PlainReader struct {
	R     io.Reader
	Chunk int // hand out at most Chunk bytes per call (0 = no limit)
	Taken int // bytes handed out so far
}

func (p *PlainReader) Read(b []byte) (int, error) {
	if p.Chunk > 0 && len(b) > p.Chunk {
		b = b[:p.Chunk]
	}
	n, err := p.R.Read(b)
	p.Taken += n
	return n, err
}

// opaqueReaderAt offers ReadAt and nothing else.
type opaqueReaderAt struct{ r io.ReaderAt }

func (o opaqueReaderAt) ReadAt(p []byte, off int64) (int, error) { return o.r.ReadAt(p, off) }

// eagerEOFReaderAt returns io.EOF already with the read that reaches the end of the input, which io.ReaderAt allows
// ("may return either err == EOF or err == nil").
type eagerEOFReaderAt struct {
	r    io.ReaderAt
	size int64
}

func (e eagerEOFReaderAt) ReadAt(p []byte, off int64) (int, error) {
	n, err := e.r.ReadAt(p, off)
	if err == nil && off+int64(n) == e.size {
		err = io.EOF
	}
	return n, err
}

// ReaderAtKinds is the number of variants ReaderAtFor knows.
const ReaderAtKinds = 8

// ReaderAtFor returns the image behind one of several io.ReaderAt implementations a caller may legitimately hand
// to a positional-read API: what is read at an offset is the same for all of them, whatever else the value can do
// (report a length, remember a sequential position) and whatever happened to it before.
func ReaderAtFor(img []byte, variant int) (io.ReaderAt, string) {
	switch ((variant % ReaderAtKinds) + ReaderAtKinds) % ReaderAtKinds {
	case 1:
		r := bytes.NewReader(img)
		io.CopyN(io.Discard, r, 2) // the caller looked at the magic first
		return r, "bytes.Reader after 2 bytes were read sequentially"
	case 2:
		r := bytes.NewReader(img)
		io.Copy(io.Discard, r) // the caller hashed the whole file first
		return r, "bytes.Reader read to the end"
	case 3:
		return strings.NewReader(string(img)), "strings.Reader"
	case 4:
		return io.NewSectionReader(bytes.NewReader(img), 0, int64(len(img))), "io.SectionReader"
	case 5:
		// the image embedded in a larger file
		buf := append(append([]byte("prefix bytes of a container file"), img...), []byte("and what follows the image")...)
		return io.NewSectionReader(bytes.NewReader(buf), int64(len("prefix bytes of a container file")), int64(len(img))), "io.SectionReader into a larger file"
	case 6:
		return opaqueReaderAt{bytes.NewReader(img)}, "ReadAt only"
	case 7:
		return eagerEOFReaderAt{bytes.NewReader(img), int64(len(img))}, "ReadAt that reports io.EOF together with the last bytes"
	}
	return bytes.NewReader(img), "bytes.Reader"
}
