// C09 — database append/remove edit an ordered entry collection and keep it well-formed.
//
// A generated history of operations is applied to one SignatureDatabase. After
// every step the flattened (type, owner, data) view read from the database is
// related to the view before the step by the rule of that operation, every
// membership query is compared with a lookup in the view, and the database must
// encode to a well-formed stream (reference codec).
package c09

import (
	"bytes"
	"encoding/pem"
	"errors"
	"fmt"
	"testing"

	"pgregory.net/rapid"

	"github.com/foxboron/go-uefi/efi/signature"

	"verifharness/adapt"
	"verifharness/gen"
	"verifharness/hx"
	"verifharness/ref/esl"
	"verifharness/ref/guid"
)

var unknownType = guid.G{D1: 0xdeadbeef, D2: 0x1234, D3: 0x5678, D4: [8]byte{9, 8, 7, 6, 5, 4, 3, 2}}

// type universe: supported, valid-but-undecodable, unknown
var types = []guid.G{esl.X509, esl.SHA256, esl.SHA1, esl.SHA384, unknownType}
var typeNames = []string{"X509", "SHA256", "SHA1", "SHA384", "UNKNOWN"}

func fill(n int, seed byte) []byte {
	b := make([]byte, n)
	for i := range b {
		b[i] = seed + byte(i*7)
	}
	return b
}

func pemOf(der []byte) []byte {
	return pem.EncodeToMemory(&pem.Block{Type: "CERTIFICATE", Bytes: der})
}

// data universe
var (
	certA = fill(300, 0x30) // two "certificates" of equal DER length
	certB = fill(300, 0x81)
	certC = fill(411, 0x55)                                        // another length
	certS = append(fill(299, 0x11), 0x20)                          // DER whose last byte happens to be a space
	certN = append(append([]byte{0x0a}, fill(298, 0x12)...), 0x0a) // ... first and last byte a line feed
	datas = [][]byte{
		fill(32, 1), fill(32, 2), fill(32, 3), fill(32, 4), // 32-byte hashes
		fill(31, 5), fill(33, 6), // wrong-size hashes
		certA, certB, certC, // DER
		pemOf(certA), pemOf(certB), pemOf(certC), // the same as PEM
		fill(20, 7), fill(48, 8), // SHA-1 / SHA-384 sized values
		certS, certN, pemOf(certS),
	}
	dataNames = []string{"h32a", "h32b", "h32c", "h32d", "h31", "h33", "derA300", "derB300", "derC411", "pemA", "pemB", "pemC", "v20", "v48", "derS300", "derN300", "pemS"}
)

type Op struct {
	Kind      string // append appendsig remove removesig bytesexists sigdataexists existslist appendlist appenddb listappend listremove roundtrip
	Type      int
	Owner     int
	Data      int
	FromModel bool // take (type, owner, data) from the current view: entry Pick mod n
	Pick      int
	List      int   // listappend / listremove: member list index (mod number of lists)
	Extra     []int // existslist / appendlist / appenddb: further data indexes
}

type Case struct {
	Start hx.Hex // well-formed stream the history starts from (may be empty)
	Ops   []Op
}

var kinds = []string{"append", "append", "append", "appendsig", "remove", "remove", "removesig", "bytesexists", "sigdataexists", "existslist",
	"appendlist", "appenddb", "listappend", "listremove", "roundtrip"}

func genOp(t *rapid.T) Op {
	return Op{
		Kind:      rapid.SampledFrom(kinds).Draw(t, "kind"),
		Type:      rapid.SampledFrom([]int{0, 0, 0, 1, 1, 1, 2, 3, 4}).Draw(t, "type"),
		Owner:     rapid.IntRange(0, len(gen.Owners)-1).Draw(t, "owner"),
		Data:      rapid.IntRange(0, len(datas)-1).Draw(t, "data"),
		FromModel: rapid.IntRange(0, 9).Draw(t, "frommodel") < 6,
		Pick:      rapid.IntRange(0, 63).Draw(t, "pick"),
		List:      rapid.IntRange(0, 7).Draw(t, "list"),
		Extra:     rapid.SliceOfN(rapid.IntRange(0, len(datas)-1), 0, 2).Draw(t, "extra"),
	}
}

func dedupe(ls []esl.List) []esl.List {
	for i := range ls {
		var out []esl.Entry
		for _, e := range ls[i].Entries {
			dup := false
			for _, o := range out {
				if o.Owner == e.Owner && bytes.Equal(o.Data, e.Data) {
					dup = true
				}
			}
			if !dup {
				out = append(out, e)
			}
		}
		ls[i].Entries = out
	}
	return ls
}

func genCase(t *rapid.T) Case {
	var c Case
	if rapid.IntRange(0, 2).Draw(t, "startkind") == 0 {
		ls := gen.ESLStream(4).Draw(t, "start") // a decoded database may hold an entry twice in one list
		// no EXTERNAL_MANAGEMENT start lists: those entries are outside the operation universe
		var keep []esl.List
		for _, l := range ls {
			if l.Type != esl.ExtMgm {
				keep = append(keep, l)
			}
		}
		c.Start = esl.Encode(keep)
	}
	max := 40
	if hx.Thorough() {
		max = 80
	}
	c.Ops = rapid.SliceOfN(rapid.Custom(genOp), 1, max).Draw(t, "ops")
	return c
}

// ---------------------------------------------------------------------------

type view struct {
	lists []esl.List
	flat  []esl.Flat
}

func snapshot(db *signature.SignatureDatabase) (view, error) {
	ls, err := adapt.DBFromLib(*db)
	if err != nil {
		return view{}, err
	}
	return view{lists: ls, flat: esl.Flatten(ls)}, nil
}

func (v view) has(e esl.Flat) bool {
	for _, f := range v.flat {
		if esl.EqualFlat(f, e) {
			return true
		}
	}
	return false
}

func equalFlat(a, b []esl.Flat) bool {
	if len(a) != len(b) {
		return false
	}
	for i := range a {
		if !esl.EqualFlat(a[i], b[i]) {
			return false
		}
	}
	return true
}

// isPlusOne reports whether after == before with exactly one e inserted somewhere.
func isPlusOne(before, after []esl.Flat, e esl.Flat) bool {
	if len(after) != len(before)+1 {
		return false
	}
	for i := range after {
		if !esl.EqualFlat(after[i], e) {
			continue
		}
		rest := append(append([]esl.Flat{}, after[:i]...), after[i+1:]...)
		if equalFlat(rest, before) {
			return true
		}
	}
	return false
}

func emptyLists(v view) int {
	n := 0
	for _, l := range v.lists {
		if len(l.Entries) == 0 {
			n++
		}
	}
	return n
}

func normalize(t guid.G, data []byte) []byte {
	if t == esl.X509 {
		if b, _ := pem.Decode(data); b != nil {
			return b.Bytes
		}
	}
	return data
}

func validScheme(t guid.G) bool { return t != unknownType }

func describe(e esl.Flat) string {
	d := fmt.Sprintf("%x", e.Data)
	if len(d) > 24 {
		d = d[:24] + fmt.Sprintf("..(%d bytes)", len(e.Data))
	}
	return fmt.Sprintf("(%s, %s, %s)", e.Type.Text(), e.Owner.Text(), d)
}

func entryKey(t guid.G, e esl.Entry) string {
	return t.Text() + "/" + e.Owner.Text() + "/" + string(e.Data)
}

// startDuplicates lists the entries that the start state already holds twice in one list.
func startDuplicates(ls []esl.List) map[string]bool {
	out := map[string]bool{}
	for _, l := range ls {
		seen := map[string]bool{}
		for _, e := range l.Entries {
			k := entryKey(l.Type, e)
			if seen[k] {
				out[k] = true
			}
			seen[k] = true
		}
	}
	return out
}

func invariants(db *signature.SignatureDatabase, v view, step string, startDup map[string]bool) error {
	for i, l := range v.lists {
		for a := 0; a < len(l.Entries); a++ {
			for b := a + 1; b < len(l.Entries); b++ {
				if startDup[entryKey(l.Type, l.Entries[a])] {
					continue // the decoded start state already held this entry twice
				}
				if l.Entries[a].Owner == l.Entries[b].Owner && bytes.Equal(l.Entries[a].Data, l.Entries[b].Data) {
					return fmt.Errorf("%s: list %d holds two identical entries (%d and %d)", step, i, a, b)
				}
			}
		}
	}
	enc := db.Bytes()
	if !bytes.Equal(enc, esl.Encode(v.lists)) {
		return fmt.Errorf("%s: Bytes() is not the encoding of the database's lists", step)
	}
	sp, err := esl.Split(enc)
	if err != nil {
		return fmt.Errorf("%s: Bytes() is not a well-formed stream: %v", step, err)
	}
	if !equalFlat(esl.Flatten(sp), v.flat) {
		return fmt.Errorf("%s: Bytes() decodes (reference) to other entries than the database holds", step)
	}
	return nil
}

func checkCase(c Case) error {
	start, err := esl.Decode(c.Start)
	if err != nil {
		return fmt.Errorf("bad case: start stream: %v", err)
	}
	rd, err := signature.ReadSignatureDatabase(bytes.NewReader(c.Start))
	if err != nil {
		return fmt.Errorf("start stream rejected: %v", err)
	}
	db := &rd
	cur, err := snapshot(db)
	if err != nil {
		return fmt.Errorf("start database inconsistent: %v", err)
	}
	if err := esl.EqualLists(cur.lists, start); err != nil {
		return fmt.Errorf("start database differs from reference decoding: %v", err)
	}

	startDup := startDuplicates(start)
	if len(startDup) > 0 {
		hx.Class("start_state_with_duplicate_entry_in_a_list")
	}
	var st struct{ appendsOK, removesOK, pem, twoTypes, appendList, multiStart, dupRefused, removeAbsent int }
	if len(start) > 1 {
		st.multiStart = 1
	}
	typesSeen := map[guid.G]bool{}

	for i, op := range c.Ops {
		ty := types[op.Type%len(types)]
		owner := gen.Owners[op.Owner%len(gen.Owners)]
		data := datas[op.Data%len(datas)]
		if op.FromModel && len(cur.flat) > 0 {
			e := cur.flat[op.Pick%len(cur.flat)]
			ty, owner, data = e.Type, e.Owner, e.Data
		}
		step := fmt.Sprintf("step %d %s(%s, owner%d, %s)", i, op.Kind, typeName(ty), op.Owner%len(gen.Owners), dataName(data))
		lt, lo := adapt.Lib(ty), adapt.Lib(owner)
		before := cur
		beforeBytes := db.Bytes()
		hx.Class("op/" + op.Kind)

		switch op.Kind {
		case "append", "appendsig":
			var err error
			if op.Kind == "append" {
				err = db.Append(lt, lo, data)
			} else {
				err = db.AppendSignature(lt, &signature.SignatureData{Owner: lo, Data: data})
			}
			e := esl.Flat{Type: ty, Owner: owner, Data: normalize(ty, data)}
			mustFail := !validScheme(ty) || (ty == esl.SHA256 && len(e.Data) != 32) || before.has(e)
			eitherWay := !mustFail && (ty == esl.SHA1 && len(e.Data) != 20 || ty == esl.SHA384 && len(e.Data) != 48)
			after, serr := snapshot(db)
			if serr != nil {
				return fmt.Errorf("%s: database inconsistent afterwards: %v", step, serr)
			}
			if err == nil {
				if mustFail {
					return fmt.Errorf("%s: returned nil but must fail (unknown type=%v, wrong sha256 size=%v, duplicate=%v)", step, !validScheme(ty), ty == esl.SHA256 && len(e.Data) != 32, before.has(e))
				}
				if !isPlusOne(before.flat, after.flat, e) {
					return fmt.Errorf("%s: succeeded but the entries are not the previous ones plus exactly %s: %d entries before, %d after", step, describe(e), len(before.flat), len(after.flat))
				}
				st.appendsOK++
				if !bytes.Equal(e.Data, data) {
					st.pem++
					hx.Class("append_pem_stored_as_der")
				}
			} else {
				if !mustFail && !eitherWay {
					return fmt.Errorf("%s: refused (%v) although the entry %s is new, of a valid type and correctly sized", step, err, describe(e))
				}
				if !equalFlat(before.flat, after.flat) || !bytes.Equal(beforeBytes, db.Bytes()) {
					return fmt.Errorf("%s: reported an error (%v) but changed the database", step, err)
				}
				if before.has(e) {
					st.dupRefused++
					hx.Class("append_duplicate_refused")
				}
			}
			if eitherWay {
				hx.Class("append_other_hash_wrong_size_either_way")
			}
			cur = after
		case "remove", "removesig":
			var err error
			if op.Kind == "remove" {
				err = db.Remove(lt, lo, data)
			} else {
				err = db.RemoveSignature(lt, &signature.SignatureData{Owner: lo, Data: data})
			}
			e := esl.Flat{Type: ty, Owner: owner, Data: data}
			after, serr := snapshot(db)
			if serr != nil {
				return fmt.Errorf("%s: database inconsistent afterwards: %v", step, serr)
			}
			if err == nil {
				if !before.has(e) {
					return fmt.Errorf("%s: returned nil for an entry that is not in the database", step)
				}
				if !isPlusOne(after.flat, before.flat, e) {
					return fmt.Errorf("%s: succeeded but the entries are not the previous ones minus exactly one %s: %d before, %d after", step, describe(e), len(before.flat), len(after.flat))
				}
				if emptyLists(after) > emptyLists(before) {
					return fmt.Errorf("%s: the list that became empty was not dropped", step)
				}
				st.removesOK++
			} else {
				if before.has(e) {
					return fmt.Errorf("%s: refused (%v) although %s is in the database", step, err, describe(e))
				}
				if !equalFlat(before.flat, after.flat) || !bytes.Equal(beforeBytes, db.Bytes()) {
					return fmt.Errorf("%s: reported an error (%v) but changed the database", step, err)
				}
				st.removeAbsent++
				if !(errors.Is(err, signature.ErrNotFoundSigData) || errors.Is(err, signature.ErrNotFoundSigList)) {
					hx.Class("remove_absent_other_error")
				}
			}
			cur = after
		case "bytesexists", "sigdataexists":
			e := esl.Flat{Type: ty, Owner: owner, Data: data}
			var got bool
			if op.Kind == "bytesexists" {
				got = db.BytesExists(lt, lo, data)
			} else {
				got = db.SigDataExists(lt, &signature.SignatureData{Owner: lo, Data: data})
			}
			if got != before.has(e) {
				return fmt.Errorf("%s: = %v but the view says %v for %s", step, got, before.has(e), describe(e))
			}
			if got {
				hx.Class("membership_true")
			} else {
				hx.Class("membership_false")
			}
		case "existslist":
			q := signature.NewSignatureList(lt)
			want := true
			items := [][]byte{data}
			for _, x := range op.Extra {
				items = append(items, datas[x%len(datas)])
			}
			n := 0
			for _, d := range items {
				if len(d) != len(data) {
					continue // one list holds entries of one size
				}
				dup := false
				for _, s := range q.Signatures {
					if bytes.Equal(s.Data, d) {
						dup = true
					}
				}
				if dup {
					continue
				}
				q.Signatures = append(q.Signatures, signature.SignatureData{Owner: lo, Data: d})
				q.Size = uint32(16 + len(d))
				q.ListSize += q.Size
				n++
				if !before.has(esl.Flat{Type: ty, Owner: owner, Data: d}) {
					want = false
				}
			}
			got := db.Exists(lt, q)
			if got != want {
				return fmt.Errorf("%s: Exists(list of %d entries) = %v but the view says %v", step, n, got, want)
			}
			if got {
				hx.Class("existslist_true")
			}
			// the list-level query: a list contains the queried list iff it holds every one of its entries
			// (CmpHeader is not judged: it is not a membership query, and it tells a nil header from an empty one)
			if lists, lerr := adapt.DBFromLib(*db); lerr == nil && len(lists) == len(*db) {
				for i, l := range *db {
					wantIn := true
					for _, qs := range q.Signatures {
						found := false
						for _, e := range lists[i].Entries {
							if e.Owner == owner && bytes.Equal(e.Data, qs.Data) {
								found = true
							}
						}
						if !found {
							wantIn = false
						}
					}
					if gotIn := l.ExistsInList(q); gotIn != wantIn {
						return fmt.Errorf("%s: list %d: ExistsInList(list of %d entries) = %v but the list's entries say %v", step, i, n, gotIn, wantIn)
					}
				}
			}
		case "appendlist", "appenddb":
			// lists built with the list-level API, holding at least one entry
			var built []*signature.SignatureList
			var added []esl.Flat
			nl := 1
			if op.Kind == "appenddb" {
				nl = 2
			}
			items := append([]int{op.Data}, op.Extra...)
			for k := 0; k < nl; k++ {
				lty := ty
				if k == 1 {
					lty = types[(op.Type+1)%2] // the other supported type
				}
				l := signature.NewSignatureList(adapt.Lib(lty))
				for _, x := range items {
					d := datas[(x+k)%len(datas)]
					if err := l.AppendBytes(lo, d); err == nil {
						added = append(added, esl.Flat{Type: lty, Owner: owner, Data: normalize(lty, d)})
					}
				}
				if len(l.Signatures) == 0 {
					hx.Excluded("appendlist_of_empty_list")
					continue
				}
				if (op.Pick+op.Data)%6 == 0 {
					// a list that carries a signature header (the structure has the field; the size equation counts it)
					l.SignatureHeader = []byte{0xc0, 0xff, 0xee}[:1+op.Pick%3]
					l.HeaderSize = uint32(len(l.SignatureHeader))
					l.ListSize += l.HeaderSize
					hx.Class("appendlist_with_signature_header")
				}
				built = append(built, l)
			}
			if len(built) == 0 {
				continue
			}
			if op.Kind == "appendlist" {
				db.AppendList(built[0])
			} else {
				other := signature.SignatureDatabase(built)
				db.AppendDatabase(&other)
			}
			after, serr := snapshot(db)
			if serr != nil {
				return fmt.Errorf("%s: database inconsistent afterwards: %v", step, serr)
			}
			if !equalFlat(after.flat, append(append([]esl.Flat{}, before.flat...), added...)) {
				return fmt.Errorf("%s: entries afterwards are not the previous ones followed by the %d appended ones", step, len(added))
			}
			st.appendList++
			cur = after
			if op.Kind != "appendlist" && len(after.lists) > 0 && len(after.lists[len(after.lists)-1].Entries) > 0 {
				// both databases stay in use after the merge: an entry goes into the merged-in list through this database,
				// then another one into the same list through the database it came from. Whether the two share the list or
				// not is the library's business; the entry added here must still be here, and the database well-formed
				lk := len(after.lists) - 1
				lt := after.lists[lk].Type
				tmpl := after.lists[lk].Entries[len(after.lists[lk].Entries)-1].Data
				d1 := append([]byte{}, tmpl...)
				d2 := append([]byte{}, tmpl...)
				d1[len(d1)-1] ^= 0x55
				d2[len(d2)-1] ^= 0xaa
				if lt == unknownType || len(tmpl) == 0 || after.has(esl.Flat{Type: lt, Owner: owner, Data: d1}) || after.has(esl.Flat{Type: lt, Owner: owner, Data: d2}) {
					hx.Excluded("merge_followup_not_applicable")
				} else if err := (*db)[lk].AppendBytes(lo, d1); err != nil {
					hx.Excluded("merge_followup_append_refused")
				} else {
					built[len(built)-1].AppendBytes(lo, d2)
					again, serr := snapshot(db)
					if serr != nil {
						return fmt.Errorf("%s: after an append to the merged-in list through each of the two databases this one is inconsistent: %v", step, serr)
					}
					if !again.has(esl.Flat{Type: lt, Owner: owner, Data: d1}) {
						return fmt.Errorf("%s: the entry appended to the merged-in list through this database is gone after an append to that list through the database it was merged from", step)
					}
					hx.Class("merge_then_append_through_both_databases")
					cur = again
				}
			}
		case "listappend":
			if len(*db) == 0 {
				continue
			}
			k := op.List % len(*db)
			l := (*db)[k]
			lty := before.lists[k].Type
			d := datas[op.Data%len(datas)]
			if op.FromModel && len(before.flat) > 0 {
				d = data
			}
			e := esl.Entry{Owner: owner, Data: normalize(lty, d)}
			inList := false
			for _, x := range before.lists[k].Entries {
				if x.Owner == e.Owner && bytes.Equal(x.Data, e.Data) {
					inList = true
				}
			}
			wrongSize := len(before.lists[k].Entries) > 0 && uint32(len(e.Data))+16 != before.lists[k].Size
			mustFail := inList || (lty == esl.SHA256 && len(e.Data) != 32) || wrongSize
			var err error
			if (op.Pick+op.Data)%2 == 0 {
				err = l.AppendBytes(lo, d)
			} else {
				// the other list-level route: the entry as a value
				hx.Class("listappend_through_AppendSignature")
				err = l.AppendSignature(signature.SignatureData{Owner: lo, Data: append([]byte{}, d...)})
			}
			after, serr := snapshot(db)
			if serr != nil {
				return fmt.Errorf("%s: list-level append on member list %d (%s, size %d) left an inconsistent database: %v", step, k, typeName(lty), before.lists[k].Size, serr)
			}
			if err == nil {
				if mustFail {
					return fmt.Errorf("%s: list-level append on member list %d returned nil but must fail (duplicate=%v wrongsize=%v)", step, k, inList, wrongSize || (lty == esl.SHA256 && len(e.Data) != 32))
				}
				if !isPlusOne(before.flat, after.flat, esl.Flat{Type: lty, Owner: e.Owner, Data: e.Data}) || len(after.lists[k].Entries) != len(before.lists[k].Entries)+1 {
					return fmt.Errorf("%s: list-level append on member list %d did not add exactly the entry to that list", step, k)
				}
				hx.Class("listappend_ok")
			} else {
				if !mustFail && (lty == esl.X509 || lty == esl.SHA256) {
					return fmt.Errorf("%s: list-level append on member list %d refused a new, correctly sized entry: %v", step, k, err)
				}
				if !equalFlat(before.flat, after.flat) || !bytes.Equal(beforeBytes, db.Bytes()) {
					return fmt.Errorf("%s: list-level append reported an error (%v) but changed the database", step, err)
				}
				if wrongSize {
					hx.Class("listappend_wrong_size_refused")
				}
			}
			cur = after
		case "listremove":
			if len(*db) == 0 {
				continue
			}
			k := op.List % len(*db)
			l := (*db)[k]
			lty := before.lists[k].Type
			ents := before.lists[k].Entries
			if len(ents) == 1 {
				hx.Excluded("listremove_of_last_entry_of_member_list")
				continue
			}
			e := esl.Entry{Owner: owner, Data: data}
			if op.FromModel && len(ents) > 0 {
				e = ents[op.Pick%len(ents)]
			}
			inList := false
			for _, x := range ents {
				if x.Owner == e.Owner && bytes.Equal(x.Data, e.Data) {
					inList = true
				}
			}
			var err error
			if (op.Pick+op.List)%2 == 0 {
				err = l.RemoveBytes(adapt.Lib(e.Owner), e.Data)
			} else {
				hx.Class("listremove_through_RemoveSignature")
				err = l.RemoveSignature(signature.SignatureData{Owner: adapt.Lib(e.Owner), Data: append([]byte{}, e.Data...)})
			}
			after, serr := snapshot(db)
			if serr != nil {
				return fmt.Errorf("%s: list-level remove on member list %d left an inconsistent database: %v", step, k, serr)
			}
			if err == nil {
				if !inList {
					return fmt.Errorf("%s: list-level remove returned nil for an absent entry", step)
				}
				if !isPlusOne(after.flat, before.flat, esl.Flat{Type: lty, Owner: e.Owner, Data: e.Data}) || len(after.lists[k].Entries) != len(ents)-1 {
					return fmt.Errorf("%s: list-level remove on member list %d did not remove exactly that entry", step, k)
				}
				hx.Class("listremove_ok")
			} else {
				if inList {
					return fmt.Errorf("%s: list-level remove refused a present entry: %v", step, err)
				}
				if !equalFlat(before.flat, after.flat) {
					return fmt.Errorf("%s: list-level remove reported an error but changed the database", step)
				}
			}
			cur = after
		case "roundtrip":
			all := true
			for _, l := range before.lists {
				if !esl.Handled(l.Type) || len(l.Header) != 0 {
					all = false // (the library's decoder refuses a header for the types it handles)
				}
			}
			if !all {
				hx.Class("roundtrip_skipped_undecodable_type")
				continue
			}
			nd, err := signature.ReadSignatureDatabase(bytes.NewReader(beforeBytes))
			if err != nil {
				return fmt.Errorf("%s: the library does not decode its own encoding: %v", step, err)
			}
			after, serr := snapshot(&nd)
			if serr != nil {
				return fmt.Errorf("%s: re-decoded database inconsistent: %v", step, serr)
			}
			if err := esl.EqualLists(after.lists, before.lists); err != nil {
				return fmt.Errorf("%s: re-decoded database differs: %v", step, err)
			}
			db = &nd
			cur = after
			hx.Class("roundtrip_done")
		default:
			return fmt.Errorf("bad case: op kind %q", op.Kind)
		}
		if err := invariants(db, cur, step, startDup); err != nil {
			return err
		}
		for _, l := range cur.lists {
			typesSeen[l.Type] = true
		}
	}
	if len(typesSeen) >= 2 {
		st.twoTypes = 1
	}
	nontrivial := (st.removesOK > 0 && st.appendsOK >= 2) || st.pem > 0 || st.twoTypes > 0 || st.multiStart > 0 || st.appendList > 0
	if nontrivial {
		hx.NonTrivial(c.Start, []byte(fmt.Sprint(c.Ops)))
		if hx.WantSample() && len(c.Ops) <= 12 {
			hx.Sample(c)
		}
	}
	hx.ClassN("appends_succeeded", st.appendsOK)
	hx.ClassN("removes_succeeded", st.removesOK)
	hx.ClassN("removes_of_absent_refused", st.removeAbsent)
	return nil
}

func typeName(t guid.G) string {
	for i, x := range types {
		if x == t {
			return typeNames[i]
		}
	}
	return t.Text()
}

func dataName(d []byte) string {
	for i, x := range datas {
		if bytes.Equal(x, d) {
			return dataNames[i]
		}
	}
	return fmt.Sprintf("%dbytes", len(d))
}

var checker = hx.Checker[Case]{Property: "C09", Gen: genCase, Check: checkCase}

func TestC09(t *testing.T)       { checker.Rapid(t) }
func TestC09Replay(t *testing.T) { checker.Replay(t) }

func TestC09Pinned(t *testing.T) {
	// the reference codec used for the well-formedness invariant must round-trip a repository fixture
	if b, ok := hx.RepoFile("tests/data/signatures/siglist/db.der.esl"); ok {
		ls, err := esl.Split(b)
		if err != nil || !bytes.Equal(esl.Encode(ls), b) {
			t.Fatalf("ORACLE-SELFCHECK-FAIL reference codec does not round-trip db.der.esl: %v", err)
		}
	}
	fmt.Println("ORACLE-SELFCHECK-OK reference ESL codec round-trips the db.der.esl fixture")
}
