// C17 — GUID and UTF-16 string conversions are lossless and use the EFI wire layout.
package c17

import (
	"bytes"
	"encoding/binary"
	"fmt"
	"github.com/foxboron/go-uefi/efi/device"
	"strings"
	"testing"
	"unicode/utf16"

	"pgregory.net/rapid"

	"github.com/foxboron/go-uefi/efi/signature"
	"github.com/foxboron/go-uefi/efi/util"
	"github.com/foxboron/go-uefi/efivar"

	"verifharness/gen"
	"verifharness/hx"
	"verifharness/ref/guid"
)

type Case struct {
	A     hx.Hex // GUID a, big-endian field bytes
	B     hx.Hex // GUID b = a with one byte changed (or equal)
	S     string // string under test
	Cut   int    // how many bytes to cut from the encoded string (terminator test)
	Extra hx.Hex // data bytes carried in the encoded structures
	Long  int    // > 0: the string under test is S repeated until it has at least Long bytes of UTF-8 (long strings, rebuilt when the case runs)
}

func genCase(t *rapid.T) Case {
	a := gen.GUID().Draw(t, "a")
	b := a.BE()
	if rapid.IntRange(0, 9).Draw(t, "same") != 0 {
		i := rapid.IntRange(0, 15).Draw(t, "i")
		d := byte(rapid.IntRange(1, 255).Draw(t, "d"))
		b[i] ^= d
	}
	long := 0
	if gen.Chance(t, "longstring", 1, 4000) {
		long = rapid.SampledFrom([]int{1<<16 + 1, 1<<20 + 1, 16<<20 + 1, 16<<20 + 1, 33 << 20}).Draw(t, "longbytes")
	}
	return Case{
		Long:  long,
		A:     a.BE(),
		B:     b,
		S:     gen.UnicodeString(4096).Draw(t, "s"),
		Cut:   rapid.IntRange(1, 2).Draw(t, "cut"),
		Extra: rapid.SliceOfN(rapid.Byte(), 1, 40).Draw(t, "extra"),
	}
}

func lib(g guid.G) util.EFIGUID {
	return util.EFIGUID{Data1: g.D1, Data2: g.D2, Data3: g.D3, Data4: g.D4}
}

func sameLib(l util.EFIGUID, g guid.G) bool {
	return l.Data1 == g.D1 && l.Data2 == g.D2 && l.Data3 == g.D3 && l.Data4 == g.D4
}

func refUTF16(s string) []byte {
	u := utf16.Encode([]rune(s))
	out := make([]byte, 0, 2*len(u)+2)
	for _, c := range u {
		out = append(out, byte(c), byte(c>>8))
	}
	return out
}

func checkCase(c Case) error {
	if c.Long > 0 {
		unit := c.S
		if unit == "" {
			unit = "long string "
		}
		c.S = strings.Repeat(unit, c.Long/len(unit)+1)
		hx.Class(fmt.Sprintf("string_of_%d_MiB", len(c.S)>>20))
	}
	if len(c.A) != 16 || len(c.B) != 16 {
		return fmt.Errorf("bad case: GUIDs must be 16 bytes")
	}
	a, b := guid.FromBE(c.A), guid.FromBE(c.B)
	la, lb := lib(a), lib(b)

	// --- classification
	leading := a.D1>>28 == 0 || a.D2>>12 == 0 || a.D3>>12 == 0 || a.D4[0]>>4 == 0 || a.D4[2]>>4 == 0
	nonASCII := false
	astral := false
	for _, r := range c.S {
		if r > 0x7f {
			nonASCII = true
		}
		if r > 0xffff {
			astral = true
		}
	}
	if leading {
		hx.Class("guid_leading_zero_field")
	}
	if nonASCII {
		hx.Class("string_non_ascii")
	}
	if astral {
		hx.Class("string_surrogate_pairs")
	}
	if c.S == "" {
		hx.Class("string_empty")
	}
	if len(c.S) > 1000 {
		hx.Class("string_long")
	}
	if leading || nonASCII {
		hx.NonTrivial(c.A, c.B, []byte(c.S))
		if hx.WantSample() {
			if len(c.S) < 2000 {
				hx.Sample(map[string]any{"guid": a.Text(), "other": b.Text(), "string": c.S})
			}
		}
	}

	// --- text form
	txt := la.Format()
	if txt != a.Text() {
		return fmt.Errorf("Format() = %q, canonical text is %q", txt, a.Text())
	}
	if len(txt) != 36 || txt != strings.ToLower(txt) {
		return fmt.Errorf("Format() = %q is not 36 lower-case characters", txt)
	}
	if g := util.StringToGUID(a.Text()); g == nil || !sameLib(*g, a) {
		return fmt.Errorf("StringToGUID(%q) = %+v", a.Text(), g)
	}
	// the returned GUID belongs to the caller: changing it must not change what the next conversion returns
	if g := util.StringToGUID(a.Text()); g != nil {
		g.Data1, g.Data2, g.Data4[3] = ^g.Data1, ^g.Data2, ^g.Data4[3]
	}
	if g := util.BytesToGUID(a.BE()); g != nil {
		g.Data3 = ^g.Data3
	}
	if g := util.StringToGUID(a.Text()); g == nil || !sameLib(*g, a) {
		return fmt.Errorf("StringToGUID(%q) = %+v after the result of an earlier identical call was modified by the caller", a.Text(), g)
	}
	if g := util.BytesToGUID(a.BE()); g == nil || !sameLib(*g, a) {
		return fmt.Errorf("BytesToGUID(%x) = %+v after the result of an earlier identical call was modified by the caller", a.BE(), g)
	}
	up := strings.ToUpper(a.Text())
	if g := util.StringToGUID(up); g == nil || !sameLib(*g, a) {
		return fmt.Errorf("StringToGUID(%q) = %+v", up, g)
	}
	// --- big-endian byte form
	be := util.GUIDToBytes(&la)
	if !bytes.Equal(be, a.BE()) {
		return fmt.Errorf("GUIDToBytes(%s) = %x, want %x", a.Text(), be, a.BE())
	}
	if !bytes.Equal(la.Bytes(), a.BE()) {
		return fmt.Errorf("EFIGUID.Bytes(%s) = %x, want %x", a.Text(), la.Bytes(), a.BE())
	}
	if g := util.BytesToGUID(a.BE()); g == nil || !sameLib(*g, a) {
		return fmt.Errorf("BytesToGUID(%x) = %+v", a.BE(), g)
	}
	var wb bytes.Buffer
	util.WriteGUID(&wb, &la)
	if !bytes.Equal(wb.Bytes(), a.BE()) {
		return fmt.Errorf("WriteGUID(%s) = %x, want %x", a.Text(), wb.Bytes(), a.BE())
	}
	// a second GUID goes behind the first, and a GUID behind whatever the buffer holds
	util.WriteGUID(&wb, &lb)
	if !bytes.Equal(wb.Bytes(), append(append([]byte{}, a.BE()...), b.BE()...)) {
		return fmt.Errorf("WriteGUID(%s) then WriteGUID(%s) into one buffer = %x", a.Text(), b.Text(), wb.Bytes())
	}
	pre := bytes.NewBufferString("hdr:")
	util.WriteGUID(pre, &la)
	if !bytes.Equal(pre.Bytes(), append([]byte("hdr:"), a.BE()...)) {
		return fmt.Errorf("WriteGUID(%s) into a buffer holding 4 bytes = %x", a.Text(), pre.Bytes())
	}
	// results must stay valid while further conversions are made (no shared buffers behind returned slices)
	keepBytes, keepText, keepGUID := util.GUIDToBytes(&la), la.Format(), util.BytesToGUID(a.BE())
	keepWire := (&signature.SignatureData{Owner: la}).Bytes()
	_ = util.GUIDToBytes(&lb)
	_ = lb.Format()
	_ = lb.Bytes()
	_ = util.BytesToGUID(b.BE())
	_ = util.StringToGUID(b.Text())
	_ = (&signature.SignatureData{Owner: lb}).Bytes()
	if !bytes.Equal(keepBytes, a.BE()) || keepText != a.Text() || keepGUID == nil || !sameLib(*keepGUID, a) || !bytes.Equal(keepWire, a.Wire()) {
		return fmt.Errorf("results for %s changed after the same conversions were applied to %s: bytes %x text %s wire %x", a.Text(), b.Text(), keepBytes, keepText, keepWire)
	}
	// --- equality is field-wise
	if !util.CmpEFIGUID(la, la) {
		return fmt.Errorf("CmpEFIGUID(g, g) false for %s", a.Text())
	}
	wantEq := bytes.Equal(c.A, c.B)
	if util.CmpEFIGUID(la, lb) != wantEq || util.CmpEFIGUID(lb, la) != wantEq {
		return fmt.Errorf("CmpEFIGUID(%s, %s) != %v", a.Text(), b.Text(), wantEq)
	}
	// --- wire layout, observed through the public encoders / decoders
	sd := signature.SignatureData{Owner: la, Data: c.Extra}
	if got, want := sd.Bytes(), append(a.Wire(), c.Extra...); !bytes.Equal(got, want) {
		return fmt.Errorf("SignatureData.Bytes owner layout: got %x want %x", got, want)
	}
	if rd, err := signature.ReadSignatureData(bytes.NewReader(append(a.Wire(), c.Extra...)), uint32(16+len(c.Extra))); err != nil || !sameLib(rd.Owner, a) || !bytes.Equal(rd.Data, c.Extra) {
		return fmt.Errorf("ReadSignatureData(%x..): %+v, %v", a.Wire(), rd, err)
	}
	// the same bytes from a reader that hands them out a few at a time (a pipe, a buffered reader at a refill): where a
	// read happens to end is no part of the layout
	for _, chunk := range []int{1, 3, 7} {
		pr := &hx.PlainReader{R: bytes.NewReader(append(a.Wire(), c.Extra...)), Chunk: chunk}
		if rd, err := signature.ReadSignatureData(pr, uint32(16+len(c.Extra))); err != nil || !sameLib(rd.Owner, a) || !bytes.Equal(rd.Data, c.Extra) {
			return fmt.Errorf("ReadSignatureData(%x..) through a reader that returns %d bytes per call: %+v, %v", a.Wire(), chunk, rd, err)
		}
	}
	// a list whose type is the X.509 GUID, owner = a: decoder must recover the owner from the wire bytes
	x509w := guid.G{D1: 0xa5c059a1, D2: 0x94e4, D3: 0x4aa7, D4: [8]byte{0x87, 0xb5, 0xab, 0x15, 0x5c, 0x2b, 0xf0, 0x72}}
	var stream []byte
	stream = append(stream, x509w.Wire()...)
	stream = binary.LittleEndian.AppendUint32(stream, uint32(28+16+len(c.Extra)))
	stream = binary.LittleEndian.AppendUint32(stream, 0)
	stream = binary.LittleEndian.AppendUint32(stream, uint32(16+len(c.Extra)))
	stream = append(stream, a.Wire()...)
	stream = append(stream, c.Extra...)
	sl, err := signature.ReadSignatureList(bytes.NewReader(stream))
	if err != nil {
		return fmt.Errorf("ReadSignatureList of a one-entry X.509 list: %v", err)
	}
	if !sameLib(sl.SignatureType, x509w) || len(sl.Signatures) != 1 || !sameLib(sl.Signatures[0].Owner, a) {
		return fmt.Errorf("ReadSignatureList: type %s owner %+v, want X509 / %s", sl.SignatureType.Format(), sl.Signatures, a.Text())
	}
	if !bytes.Equal(sl.Bytes(), stream) {
		return fmt.Errorf("SignatureList.Bytes: got %x want %x", sl.Bytes(), stream)
	}
	for _, chunk := range []int{1, 5} {
		slp, err := signature.ReadSignatureList(&hx.PlainReader{R: bytes.NewReader(stream), Chunk: chunk})
		if err != nil || !sameLib(slp.SignatureType, x509w) || len(slp.Signatures) != 1 || !sameLib(slp.Signatures[0].Owner, a) {
			return fmt.Errorf("ReadSignatureList through a reader that returns %d bytes per call: %v, list %+v, want X509 / %s", chunk, err, slp, a.Text())
		}
	}
	// list with an arbitrary type GUID written by the encoder
	l2 := signature.SignatureList{SignatureType: lb, ListSize: 28, SignatureHeader: []byte{}, Signatures: []signature.SignatureData{}}
	if got := l2.Bytes(); len(got) != 28 || !bytes.Equal(got[:16], b.Wire()) {
		return fmt.Errorf("SignatureList.Bytes type layout: got %x want prefix %x", got, b.Wire())
	}
	// WIN_CERTIFICATE_UEFI_GUID
	var wcb bytes.Buffer
	signature.WriteWinCertificateUEFIGUID(&wcb, &signature.WinCertificateUEFIGUID{
		Header:   signature.WINCertificate{Length: uint32(24 + len(c.Extra)), Revision: 0x0200, CertType: signature.WIN_CERT_TYPE_EFI_GUID},
		CertType: la, CertData: c.Extra,
	})
	wc := wcb.Bytes()
	if len(wc) != 24+len(c.Extra) || !bytes.Equal(wc[8:24], a.Wire()) {
		return fmt.Errorf("WriteWinCertificateUEFIGUID type GUID layout: got %x want %x at offset 8", wc, a.Wire())
	}
	rwc, err := signature.ReadWinCertificateUEFIGUID(bytes.NewReader(wc))
	if err != nil || !sameLib(rwc.CertType, a) {
		return fmt.Errorf("ReadWinCertificateUEFIGUID: type %+v err %v, want %s", rwc.CertType, err, a.Text())
	}
	if rwc, err := signature.ReadWinCertificateUEFIGUID(&hx.PlainReader{R: bytes.NewReader(wc), Chunk: 3}); err != nil || !sameLib(rwc.CertType, a) {
		return fmt.Errorf("ReadWinCertificateUEFIGUID through a reader that returns 3 bytes per call: type %+v err %v, want %s", rwc.CertType, err, a.Text())
	}

	// --- UTF-16
	want := append(refUTF16(c.S), 0, 0)
	enc := util.MarshalUtf16Var(c.S)
	if !bytes.Equal(enc, want) {
		return fmt.Errorf("MarshalUtf16Var(%q) = %x, want %x", c.S, enc, want)
	}
	dec, err := util.ParseUtf16Var(bytes.NewBuffer(append([]byte{}, want...)))
	if err != nil || dec != c.S {
		return fmt.Errorf("ParseUtf16Var(encode(%q)) = %q, %v", c.S, dec, err)
	}
	var es efivar.Efistring
	if err := es.Unmarshal(bytes.NewBuffer(append([]byte{}, want...))); err != nil || string(es) != c.S {
		return fmt.Errorf("Efistring.Unmarshal(encode(%q)) = %q, %v", c.S, string(es), err)
	}
	enc2 := util.MarshalUtf16Var(c.S + "x")
	if !bytes.Equal(enc, want) || len(enc2) != len(want)+2 {
		return fmt.Errorf("MarshalUtf16Var result changed after another call")
	}
	// without the terminator (2 bytes cut) decoding must fail
	unterminated := want[:len(want)-2]
	if d, err := util.ParseUtf16Var(bytes.NewBuffer(append([]byte{}, unterminated...))); err == nil {
		return fmt.Errorf("ParseUtf16Var of %q without terminator returned %q and no error", c.S, d)
	}
	var es2 efivar.Efistring
	if err := es2.Unmarshal(bytes.NewBuffer(append([]byte{}, unterminated...))); err == nil {
		return fmt.Errorf("Efistring.Unmarshal of %q without terminator returned %q and no error", c.S, string(es2))
	}
	// the same string as the name of a file-path node (the structure that carries such strings): with the terminator
	// the name comes back, without it decoding is an error there too
	if len(want)+4 <= 0xffff {
		node := func(name []byte) []byte {
			n := []byte{4, 4, byte(len(name) + 4), byte((len(name) + 4) >> 8)}
			return append(append(n, name...), 0x7f, 0xff, 4, 0)
		}
		ps, err := device.ParseDevicePath(bytes.NewReader(node(want)))
		if err != nil || len(ps) == 0 {
			return fmt.Errorf("file-path node named %q: ParseDevicePath: %d nodes, %v", c.S, len(ps), err)
		}
		if f, ok := ps[0].(device.FileTypeMediaDevicePath); !ok || f.PathName != c.S {
			return fmt.Errorf("file-path node named %q decodes to %#v", c.S, ps[0])
		}
		if ps, err := device.ParseDevicePath(bytes.NewReader(node(unterminated))); err == nil {
			return fmt.Errorf("file-path node whose name %q lacks the terminator decodes without error to %#v", c.S, ps)
		}
		// the node decoder on its own (exported): the body alone, as the path decoder hands it over
		hdr := &device.EFIDevicePath{Type: 4, SubType: 4, Length: [2]uint8{byte(len(want) + 4), byte((len(want) + 4) >> 8)}}
		if n, err := device.ParseMediaDevicePath(bytes.NewReader(want), hdr); err != nil {
			return fmt.Errorf("ParseMediaDevicePath of a file-path body named %q: %v", c.S, err)
		} else if f, ok := n.(device.FileTypeMediaDevicePath); !ok || f.PathName != c.S {
			return fmt.Errorf("ParseMediaDevicePath of a file-path body named %q decodes to %#v", c.S, n)
		}
		if len(unterminated) > 0 {
			if n, err := device.ParseMediaDevicePath(bytes.NewReader(unterminated), hdr); err == nil {
				return fmt.Errorf("ParseMediaDevicePath of a file-path body whose name %q lacks the terminator returns %#v and no error", c.S, n)
			}
		}
	}
	return nil
}

var checker = hx.Checker[Case]{Property: "C17", Gen: genCase, Check: checkCase}

func TestC17(t *testing.T)       { checker.Rapid(t) }
func TestC17Replay(t *testing.T) { checker.Replay(t) }

// TestC17Pinned validates the reference against the GUID strings pinned in the
// repository's own tests (oracle self-check).
func TestC17Pinned(t *testing.T) {
	pinned := map[string][]byte{
		"8be4df61-93ca-11d2-aa0d-00e098032b8c": {0x8b, 0xe4, 0xdf, 0x61, 0x93, 0xca, 0x11, 0xd2, 0xaa, 0xd, 0x0, 0xe0, 0x98, 0x3, 0x2b, 0x8c},
		"c12a7328-f81f-11d2-ba4b-00a0c93ec93b": {0xc1, 0x2a, 0x73, 0x28, 0xf8, 0x1f, 0x11, 0xd2, 0xba, 0x4b, 0x0, 0xa0, 0xc9, 0x3e, 0xc9, 0x3b},
		"024dee41-33e7-11d3-9d69-0008c781f39f": {0x2, 0x4d, 0xee, 0x41, 0x33, 0xe7, 0x11, 0xd3, 0x9d, 0x69, 0x0, 0x8, 0xc7, 0x81, 0xf3, 0x9f},
		"0657fd6d-a4ab-43c4-84e5-0933c84b4f4f": {0x6, 0x57, 0xfd, 0x6d, 0xa4, 0xab, 0x43, 0xc4, 0x84, 0xe5, 0x9, 0x33, 0xc8, 0x4b, 0x4f, 0x4f},
	}
	for txt, be := range pinned {
		if g := guid.FromBE(be); g.Text() != txt {
			t.Fatalf("ORACLE-SELFCHECK-FAIL reference text of %x = %s, pinned %s", be, g.Text(), txt)
		}
	}
	fmt.Println("ORACLE-SELFCHECK-OK guid reference reproduces", len(pinned), "pinned GUID strings")
}
