// C11 — variable I/O follows the efivarfs contract: one write, attribute-checked reads.
package c11

import (
	"bytes"
	"crypto/sha256"
	"encoding/binary"
	"errors"
	"fmt"
	"os"
	"path"
	"strings"
	"testing"

	"github.com/spf13/afero"
	"pgregory.net/rapid"

	"github.com/foxboron/go-uefi/efi"
	"github.com/foxboron/go-uefi/efi/attributes"
	efifs "github.com/foxboron/go-uefi/efi/fs"
	"github.com/foxboron/go-uefi/efi/signature"
	"github.com/foxboron/go-uefi/efivar"
	"github.com/foxboron/go-uefi/efivarfs"

	"verifharness/adapt"
	"verifharness/gen"
	"verifharness/hx"
	"verifharness/recfs"
	"verifharness/ref/esl"
	"verifharness/ref/guid"
)

type Case struct {
	API     string // object | legacy
	Op      string // write | read
	Dir     string // efivars directory
	Name    string
	GUID    hx.Hex
	Attrs   uint32 // attribute mask of the variable definition
	Value   hx.Hex // encoded value
	Kind    string // how the value is handed over: raw | database | signed
	Stored  uint32 // read: attribute mask stored in the file
	FileLen int    // read: -1 file absent, 0..3 short file, 4 = mask + value
	Global  bool   // legacy: use WriteEfivars/ReadEfivars (GUID chosen by name)
	Chunk   int    // read: the file hands out at most Chunk bytes per Read call (0 = no limit)
	Short   bool   // write: the file system accepts only half of the buffer (short write, nil error)
	WriteErr string // write: the one write call fails with this errno (EINTR, EAGAIN, EIO, ENOSPC, EACCES) or "injected"
	Prior   int    // write through the object API: 0 none, 1 an append-write of another variable, 2 a failing write of another variable comes first on the same wrapper
}

type raw []byte

func (r raw) Marshal(b *bytes.Buffer) { b.Write(r) }
func (r raw) Bytes() []byte           { return r }

// spy records whether and with what Unmarshal was called.
type spy struct {
	called int
	got    []byte
	raw    []byte // the buffer's bytes as handed over, not copied: a decoder may keep them
}

func (s *spy) Unmarshal(b *bytes.Buffer) error {
	s.called++
	s.got = append([]byte{}, b.Bytes()...)
	s.raw = b.Bytes()
	return nil
}

var predefined = []efivar.Efivar{efivar.PK, efivar.KEK, efivar.Db, efivar.Dbx, efivar.SecureBoot, efivar.SetupMode, efivar.BootOrder, efivar.BootEntry, efivar.PKDefault, efivar.KEKDefault,
	efivar.DbDefault, efivar.DbxDefault, efivar.BootCurrent, efivar.BootNext, efivar.LoaderEntrySelected, efivar.LoaderTimeInitUSec, efivar.LoaderDevicePartUUID, efivar.LoaderFeatures, efivar.LoaderSystemToken}

func genCase(t *rapid.T) Case {
	c := Case{API: rapid.SampledFrom([]string{"object", "object", "legacy"}).Draw(t, "api"), Op: rapid.SampledFrom([]string{"write", "read"}).Draw(t, "op")}
	c.Dir = "/sys/firmware/efi/efivars"
	if rapid.Bool().Draw(t, "otherdir") {
		// below a root that does not exist on the host: the legacy API probes the host path for the immutable flag
		c.Dir = "/verif_no_such_root/" + strings.Join(rapid.SliceOfN(rapid.StringMatching(`[a-z0-9_]{1,8}`), 1, 4).Draw(t, "dir"), "/")
		if rapid.IntRange(0, 3).Draw(t, "oddly_named_directory") == 0 {
			// directory names are whatever the administrator chose: characters that mean something to format strings,
			// patterns or shells are ordinary here
			c.Dir += "/" + rapid.SampledFrom([]string{"100%", "%s-%s", "%d", "%!v", "a b", "snap*", "[x]", "{a,b}", "back\\slash", "\u00e9fi", "-", "$HOME", "~", "..."}).Draw(t, "oddname") + "/efivars"
		}
	}
	if rapid.Bool().Draw(t, "predefined") {
		v := rapid.SampledFrom(predefined).Draw(t, "var")
		c.Name, c.GUID, c.Attrs = v.Name, adapt.Ref(*v.GUID).BE(), uint32(v.Attributes)
		if rapid.IntRange(0, 2).Draw(t, "append") == 0 {
			c.Attrs |= uint32(attributes.EFI_VARIABLE_APPEND_WRITE)
		}
	} else {
		c.Name = rapid.StringMatching(`[A-Za-z0-9_]{1,32}`).Draw(t, "name")
		c.GUID = gen.GUID().Draw(t, "guid").BE()
		c.Attrs = rapid.Uint32Range(0, 0xff).Draw(t, "attrs")
	}
	switch rapid.IntRange(0, 3).Draw(t, "valuekind") {
	case 0:
		c.Kind, c.Value = "database", esl.Encode(gen.ESLStream(3).Draw(t, "db"))
	case 1:
		c.Kind = "signed"
		c.Value = gen.SizedBytes(600, 40, 100).Draw(t, "signedbytes")
	default:
		c.Kind = "raw"
		c.Value = gen.SizedBytes(4096, 0, 1, 2, 5).Draw(t, "raw")
	}
	if c.Op == "read" {
		switch rapid.IntRange(0, 5).Draw(t, "maskkind") {
		case 0:
			c.Stored = c.Attrs // equal
		case 1:
			c.Stored = c.Attrs | rapid.Uint32Range(0, 0xff).Draw(t, "extra") // superset
		case 2:
			c.Stored = c.Attrs & rapid.Uint32Range(0, 0xff).Draw(t, "keep") // subset
		case 3:
			c.Stored = ^c.Attrs & 0xff // disjoint
		default:
			c.Stored = rapid.Uint32().Draw(t, "stored")
		}
		c.FileLen = rapid.SampledFrom([]int{4, 4, 4, 4, 4, 4, -1, 0, 1, 2, 3}).Draw(t, "filelen")
		c.Chunk = rapid.SampledFrom([]int{0, 0, 0, 1, 3, 7, 64}).Draw(t, "chunk")
	}
	if c.API == "legacy" {
		c.Global = rapid.IntRange(0, 3).Draw(t, "global") == 0
	}
	c.Short = c.Op == "write" && rapid.IntRange(0, 5).Draw(t, "shortwrite") == 0
	if c.Op == "write" && !c.Short && rapid.IntRange(0, 5).Draw(t, "failingwrite") == 0 {
		c.WriteErr = rapid.SampledFrom([]string{"EINTR", "EAGAIN", "EIO", "ENOSPC", "EACCES", "injected"}).Draw(t, "errno")
	}
	if c.Op == "write" && c.API == "object" {
		c.Prior = rapid.SampledFrom([]int{0, 0, 1, 2}).Draw(t, "prior")
	}
	return c
}

func mutating(op string) bool {
	return strings.HasPrefix(op, "File.Write") || strings.HasPrefix(op, "File.Truncate") || op == "Fs.Remove" || op == "Fs.RemoveAll" || op == "Fs.Rename" ||
		op == "Fs.Create" || op == "Fs.Mkdir" || op == "Fs.MkdirAll" || op == "Fs.Chmod" || op == "Fs.Chown" || op == "Fs.Chtimes"
}

func checkCase(c Case) error {
	if len(c.GUID) != 16 {
		return fmt.Errorf("bad case")
	}
	g := guid.FromBE(c.GUID)
	lg := adapt.Lib(g)
	name := c.Name
	if c.API == "legacy" && c.Global {
		// the GUID is chosen by name: the image security database GUID for db/dbx/dbt/dbr, else the global one
		if name == "db" || name == "dbx" || name == "dbt" || name == "dbr" {
			g = guid.G{D1: 0xd719b2cb, D2: 0x3d3a, D3: 0x4596, D4: [8]byte{0xa3, 0xbc, 0xda, 0xd0, 0x0e, 0x67, 0x65, 0x6f}}
		} else {
			g = guid.G{D1: 0x8be4df61, D2: 0x93ca, D3: 0x11d2, D4: [8]byte{0xaa, 0x0d, 0x00, 0xe0, 0x98, 0x03, 0x2b, 0x8c}}
		}
		lg = adapt.Lib(g)
	}
	v := efivar.Efivar{Name: name, GUID: &lg, Attributes: attributes.Attributes(c.Attrs)}
	wantPath := path.Join(c.Dir, name+"-"+g.Text())
	value := []byte(c.Value)

	savedDir := attributes.Efivars
	savedFs := efifs.Fs
	attributes.Efivars = c.Dir
	defer func() { attributes.Efivars = savedDir; efifs.SetFS(savedFs) }()

	mem := afero.NewMemMapFs()
	rec := recfs.New(mem, "MemMapFS")
	rec.ReadChunk = c.Chunk
	if c.Short {
		rec.Fault = recfs.Fault{At: 2, Kind: "short"} // fallible calls of a write: OpenFile, Write, Close
	}
	if c.WriteErr != "" {
		rec.Fault = recfs.Fault{At: 2, Kind: "error", Cause: strings.TrimPrefix(c.WriteErr, "injected")}
	}
	if c.Chunk > 0 {
		hx.Class("read/chunked_reader")
	}

	// classification
	hx.Class("api/" + c.API)
	hx.Class("op/" + c.Op)
	appendW := c.Attrs&uint32(attributes.EFI_VARIABLE_APPEND_WRITE) != 0
	subset := c.Op == "read" && c.Stored&c.Attrs != c.Attrs
	if (c.Op == "write" && appendW) || subset || c.API == "legacy" || c.Dir != "/sys/firmware/efi/efivars" {
		hx.NonTrivial([]byte(fmt.Sprint(c.API, c.Op, c.Dir, c.Name, c.Attrs, c.Stored, c.FileLen, c.Global)), c.GUID, c.Value)
		if hx.WantSample() && len(c.Value) < 200 {
			hx.Sample(c)
		}
	}

	if c.Op == "write" {
		var m efivar.Marshallable = raw(value)
		if c.Kind == "database" {
			if db, err := signature.ReadSignatureDatabase(bytes.NewReader(value)); err == nil && bytes.Equal(db.Bytes(), value) {
				m = &db
			}
		}
		if c.Kind == "signed" && len(value)%2 == 0 {
			// the value is what SignEFIVariable hands out for writing: descriptor followed by the payload
			db := signature.NewSignatureDatabase()
			h := sha256.Sum256(value)
			if err := db.Append(signature.CERT_SHA256_GUID, adapt.Lib(gen.Owners[0]), h[:]); err != nil {
				return fmt.Errorf("bad case: %v", err)
			}
			id := gen.FixedIdents()[len(value)%4]
			auth, upd, serr := signature.SignEFIVariable(v, db, id.Priv(), id.Cert)
			if serr != nil {
				return fmt.Errorf("SignEFIVariable: %v", serr)
			}
			var ab bytes.Buffer
			auth.Marshal(&ab)
			value = append(ab.Bytes(), db.Bytes()...)
			m = upd
			hx.Class("write/value_is_a_signed_update_from_SignEFIVariable")
		}
		var err error
		if c.API == "object" {
			fs := efivarfs.NewFS()
			if c.Prior != 0 {
				// the wrapper has been used before: an append-write, or a write that failed
				hx.Class(fmt.Sprintf("write/prior_use_of_the_wrapper_%d", c.Prior))
				pg := adapt.Lib(guid.G{D1: 0x11223344, D2: 0x5566, D3: 0x7788, D4: [8]byte{1, 2, 3, 4, 5, 6, 7, 8}})
				pv := efivar.Efivar{Name: "VerifPrior", GUID: &pg, Attributes: attributes.Attributes(c.Attrs) | attributes.EFI_VARIABLE_APPEND_WRITE}
				pfs := recfs.New(afero.NewMemMapFs(), "MemMapFS")
				if c.Prior == 2 {
					pfs.Fault = recfs.Fault{At: 2, Kind: "error"}
				}
				fs.SetFS(pfs)
				fs.WriteVar(pv, raw([]byte("prior value that must not show up again")))
			}
			fs.SetFS(rec)
			err = fs.WriteVar(v, m)
		} else {
			efifs.SetFS(rec)
			if va, known := efi.ValidAttributes[name]; c.Global && known && uint32(va) == c.Attrs && len(value)%2 == 0 {
				// the shortest legacy route: the attributes come from the package's table
				hx.Class("write/legacy_efi.WriteEFIVariable")
				err = efi.WriteEFIVariable(name, value)
			} else if c.Global {
				err = attributes.WriteEfivars(name, attributes.Attributes(c.Attrs), value)
			} else {
				err = attributes.WriteEfivarsWithGuid(name, attributes.Attributes(c.Attrs), value, lg)
			}
		}
		if c.Short {
			hx.Class("write/short_write_by_the_file_system")
			if err == nil {
				return fmt.Errorf("the file system took only half of the buffer (short write) but the write of %s reported success", wantPath)
			}
		} else if c.WriteErr != "" {
			// the firmware refused the write (or the call was interrupted): the caller has to hear of it, and the library
			// does not write a second time on its own (an append-write would be applied twice)
			hx.Class("write/write_call_fails_with_" + c.WriteErr)
			if err == nil {
				return fmt.Errorf("the write call on %s failed with %s but the write reported success", wantPath, c.WriteErr)
			}
		} else if err != nil {
			return fmt.Errorf("write of %s fails on a working file system: %v", wantPath, err)
		}
		var opens, writes []recfs.Event
		for _, e := range rec.Events() {
			if e.Path != wantPath {
				return fmt.Errorf("write touched another path: %s %q (the variable file is %q)", e.Op, e.Path, wantPath)
			}
			switch {
			case e.Op == "Fs.OpenFile":
				opens = append(opens, e)
			case e.Op == "File.Write":
				writes = append(writes, e)
			case mutating(e.Op) || e.Op == "Fs.Open":
				return fmt.Errorf("write performed an unexpected operation %s on %q", e.Op, e.Path)
			}
		}
		if len(opens) != 1 {
			return fmt.Errorf("write opened the variable file %d times, want exactly one OpenFile", len(opens))
		}
		fl := opens[0].Flags
		if fl&(os.O_WRONLY|os.O_RDWR|os.O_RDONLY) != os.O_WRONLY || fl&os.O_RDWR != 0 {
			return fmt.Errorf("variable file opened with access mode %#x, want write-only", fl&(os.O_WRONLY|os.O_RDWR))
		}
		if fl&os.O_CREATE == 0 {
			return fmt.Errorf("variable file opened without O_CREATE (flags %#x)", fl)
		}
		if fl&os.O_EXCL != 0 {
			return fmt.Errorf("variable file opened with O_EXCL (flags %#x)", fl)
		}
		if (fl&os.O_APPEND != 0) != appendW {
			return fmt.Errorf("O_APPEND=%v but APPEND_WRITE attribute=%v (flags %#x, attributes %#x)", fl&os.O_APPEND != 0, appendW, fl, c.Attrs)
		}
		if len(writes) != 1 {
			return fmt.Errorf("write performed %d write operations, efivarfs needs exactly one", len(writes))
		}
		want := append(binary.LittleEndian.AppendUint32(nil, c.Attrs), value...)
		if !bytes.Equal(writes[0].Data, want) {
			return fmt.Errorf("write buffer is not LE32(attributes) || value: %d bytes, want %d; first bytes %x want %x", len(writes[0].Data), len(want), head(writes[0].Data), head(want))
		}
		return nil
	}

	// ---- read
	stored := append(binary.LittleEndian.AppendUint32(nil, c.Stored), value...)
	switch {
	case c.FileLen < 0:
	case c.FileLen < 4:
		afero.WriteFile(mem, wantPath, stored[:c.FileLen], 0644)
	default:
		afero.WriteFile(mem, wantPath, stored, 0644)
	}
	wantErr := c.FileLen < 4
	if c.API == "object" {
		fs := efivarfs.NewFS()
		fs.SetFS(rec)
		sp := &spy{}
		at, err := fs.GetVarWithAttributes(v, sp)
		lacks := c.Stored&c.Attrs != c.Attrs
		switch {
		case wantErr:
			hx.Class("read/absent_or_short_file")
			if err == nil {
				return fmt.Errorf("read of an absent or %d-byte file returned no error", c.FileLen)
			}
			if sp.called != 0 {
				return fmt.Errorf("value decoded although the file is absent or short")
			}
		case lacks:
			hx.Class("read/stored_mask_lacks_required_attribute")
			if !errors.Is(err, efivarfs.ErrIncorrectAttributes) {
				return fmt.Errorf("stored mask %#x lacks attributes of the definition %#x: want ErrIncorrectAttributes, got %v", c.Stored, c.Attrs, err)
			}
			if sp.called != 0 {
				return fmt.Errorf("value was decoded although the stored mask %#x lacks required attributes %#x", c.Stored, c.Attrs)
			}
			// the typed getters of the same API read the same file under the predefined definition: the same error
			for _, tg := range []struct {
				v   efivar.Efivar
				get func(*efivarfs.Efivarfs) error
			}{
				{efivar.PK, func(e *efivarfs.Efivarfs) error { _, err := e.GetPK(); return err }},
				{efivar.KEK, func(e *efivarfs.Efivarfs) error { _, err := e.GetKEK(); return err }},
				{efivar.Db, func(e *efivarfs.Efivarfs) error { _, err := e.Getdb(); return err }},
				{efivar.Dbx, func(e *efivarfs.Efivarfs) error { _, err := e.Getdbx(); return err }},
			} {
				if tg.v.Name == name && adapt.Ref(*tg.v.GUID) == g && c.Dir == "/sys/firmware/efi/efivars" && c.Stored&uint32(tg.v.Attributes) != uint32(tg.v.Attributes) {
					hx.Class("read/typed_getter_with_insufficient_stored_mask")
					if gerr := tg.get(fs.Open()); !errors.Is(gerr, efivarfs.ErrIncorrectAttributes) {
						return fmt.Errorf("typed getter of %s: stored mask %#x lacks attributes of the definition %#x: want ErrIncorrectAttributes, got %v", name, c.Stored, uint32(tg.v.Attributes), gerr)
					}
				}
			}
		default:
			hx.Class("read/ok")
			if err != nil {
				return fmt.Errorf("read fails although the stored mask %#x covers the definition %#x: %v", c.Stored, c.Attrs, err)
			}
			if sp.called != 1 || !bytes.Equal(sp.got, value) {
				return fmt.Errorf("decoder called %d times with %d bytes, want once with the %d bytes after the first four", sp.called, len(sp.got), len(value))
			}
			if uint32(at) != c.Stored {
				return fmt.Errorf("returned attributes %#x, stored %#x", at, c.Stored)
			}
			sp2 := &spy{}
			if err := fs.GetVar(v, sp2); err != nil || !bytes.Equal(sp2.got, value) {
				return fmt.Errorf("GetVar disagrees with GetVarWithAttributes: %v", err)
			}
			// what a read handed to the decoder belongs to the caller: the firmware changes the variable (same length,
			// other bytes), it is read again through the same object, and the bytes of the first read are still the old value
			if len(value) > 0 {
				flipped := append([]byte{}, stored...)
				for i := 4; i < len(flipped); i++ {
					flipped[i] ^= 0xff
				}
				afero.WriteFile(mem, wantPath, flipped, 0644)
				sp3 := &spy{}
				if err := fs.GetVar(v, sp3); err != nil || !bytes.Equal(sp3.got, flipped[4:]) {
					return fmt.Errorf("second read of the variable after its value changed: %v, %d bytes", err, len(sp3.got))
				}
				if !bytes.Equal(sp.raw, value) || !bytes.Equal(sp2.raw, value) {
					return fmt.Errorf("the bytes an earlier read handed to its decoder changed when the variable was read again through the same object")
				}
				hx.Class("read/earlier_result_kept_across_a_later_read")
			}
		}
	} else {
		efifs.SetFS(rec)
		var at attributes.Attributes
		var buf *bytes.Buffer
		var err error
		if c.Global {
			at, buf, err = attributes.ReadEfivars(name)
		} else {
			at, buf, err = attributes.ReadEfivarsWithGuid(name, lg)
		}
		if wantErr {
			hx.Class("read/absent_or_short_file")
			if err == nil {
				return fmt.Errorf("legacy read of an absent or %d-byte file returned no error", c.FileLen)
			}
		} else {
			hx.Class("read/ok")
			if err != nil {
				return fmt.Errorf("legacy read fails: %v", err)
			}
			if uint32(at) != c.Stored || buf == nil || !bytes.Equal(buf.Bytes(), value) {
				return fmt.Errorf("legacy read returned attributes %#x and %d bytes, stored %#x and %d bytes", at, bufLen(buf), c.Stored, len(value))
			}
			if len(value) > 0 && !c.Global {
				flipped := append([]byte{}, stored...)
				for i := 4; i < len(flipped); i++ {
					flipped[i] ^= 0xff
				}
				afero.WriteFile(mem, wantPath, flipped, 0644)
				if _, buf2, err := attributes.ReadEfivarsWithGuid(name, lg); err != nil || !bytes.Equal(buf2.Bytes(), flipped[4:]) {
					return fmt.Errorf("second legacy read of the variable after its value changed: %v", err)
				}
				if !bytes.Equal(buf.Bytes(), value) {
					return fmt.Errorf("the buffer an earlier legacy read returned changed when the variable was read again")
				}
				afero.WriteFile(mem, wantPath, stored, 0644)
				hx.Class("read/earlier_result_kept_across_a_later_read")
			}
			// the legacy getters of the secure-boot variables carry the definition's mask: all of its bits are required
			if getter := map[string]func() (*signature.SignatureDatabase, error){"PK": efi.GetPK, "KEK": efi.GetKEK, "db": efi.Getdb, "dbx": efi.Getdbx}[name]; c.Global && getter != nil {
				va := uint32(efi.ValidAttributes[name])
				_, gerr := getter()
				if c.Stored&va != va {
					hx.Class("read/legacy_typed_getter_with_insufficient_stored_mask")
					if gerr == nil {
						return fmt.Errorf("legacy getter of %s decodes a variable whose stored mask %#x lacks required attributes (%#x)", name, c.Stored, va)
					}
				} else if _, derr := signature.ReadSignatureDatabase(bytes.NewReader(value)); derr == nil && gerr != nil {
					return fmt.Errorf("legacy getter of %s fails although the stored mask %#x has all required attributes and the value decodes: %v", name, c.Stored, gerr)
				}
			}
		}
	}
	for _, e := range rec.Events() {
		if e.Path != wantPath {
			return fmt.Errorf("read touched another path: %s %q (the variable file is %q)", e.Op, e.Path, wantPath)
		}
		if mutating(e.Op) || (e.Op == "Fs.OpenFile" && e.Flags&(os.O_WRONLY|os.O_RDWR|os.O_CREATE|os.O_TRUNC|os.O_APPEND) != 0) {
			return fmt.Errorf("read performed a mutating operation %s (flags %#x) on %q", e.Op, e.Flags, e.Path)
		}
	}
	return nil
}

func bufLen(b *bytes.Buffer) int {
	if b == nil {
		return -1
	}
	return b.Len()
}

func head(b []byte) []byte {
	if len(b) > 16 {
		return b[:16]
	}
	return b
}

var checker = hx.Checker[Case]{Property: "C11", Gen: genCase, Check: checkCase}

func TestC11(t *testing.T)       { checker.Rapid(t) }
func TestC11Replay(t *testing.T) { checker.Replay(t) }

// TestC11Pinned: the path convention of the reference (Name-guid with the
// canonical lower-case text) is the one the repository's captured variables use.
func TestC11Pinned(t *testing.T) {
	g := guid.G{D1: 0x8be4df61, D2: 0x93ca, D3: 0x11d2, D4: [8]byte{0xaa, 0x0d, 0x00, 0xe0, 0x98, 0x03, 0x2b, 0x8c}}
	p := "tests/data/boot/Boot0000-" + g.Text()
	if _, ok := hx.RepoFile(p); !ok {
		t.Fatalf("ORACLE-SELFCHECK-FAIL captured variable %s not found under the reference's path convention", p)
	}
	fmt.Println("ORACLE-SELFCHECK-OK reference path convention <Name>-<lower-case GUID> matches the captured efivarfs files of the repository")
}
