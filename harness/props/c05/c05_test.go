// C05 — produced PKCS#7 signatures verify under independent implementations.
package c05

import (
	"bytes"
	"errors"
	"io"
	"crypto"
	"crypto/rsa"
	"crypto/sha256"
	encasn1 "encoding/asn1"
	"fmt"
	"testing"
	"time"

	mozilla "go.mozilla.org/pkcs7"
	"pgregory.net/rapid"

	"github.com/foxboron/go-uefi/authenticode"
	"github.com/foxboron/go-uefi/pkcs7"

	"verifharness/gen"
	"verifharness/hx"
	"verifharness/ossl"
	"verifharness/ref/cms"
	"verifharness/ref/der"
)

type Case struct {
	Key       int
	Cert      hx.Hex
	OID       []int
	Content   hx.Hex
	AuthCode  bool // go through authenticode.SignAuthenticode(stream) instead of SignPKCS7
	ImgAlg    int  // AuthCode: the crypto.Hash the stream is hashed with for the SpcIndirectDataContent (0 = SHA-256); the SignedData around it stays SHA-256
	TwinFirst bool // before the signer's certificate, the parsed object is asked about a certificate with the same issuer and serial and another key
	OpenSSL   bool // also ask the openssl CLI (sampled: process spawns are slow)
	TZMin     int  // process time zone offset from UTC in minutes while signing (the signing time attribute is UTC whatever the zone)
}

func genElements(t *rapid.T) []byte {
	if gen.Chance(t, "boundarytotal", 1, 25) {
		// embedded content whose total length sits on a DER length-form boundary or at the top of the range:
		// one OCTET STRING sized so that header + data is exactly the target
		target := rapid.SampledFrom([]int{127, 128, 129, 255, 256, 257, 65535, 65536, 65537, 70000}).Draw(t, "total")
		for data := target; data >= 0; data-- {
			if e := der.Octets(make([]byte, data)).Encode(); len(e) == target {
				copy(e[len(e)-data:], gen.FillBytes(t, data))
				return e
			} else if len(e) < target {
				break
			}
		}
	}
	var out []byte
	for i := rapid.IntRange(1, 3).Draw(t, "nel"); i > 0; i-- {
		var n *der.Node
		switch rapid.IntRange(0, 3).Draw(t, "elkind") {
		case 0:
			n = der.Octets(gen.SizedBytes(2000, 0, 1, 55, 56, 63, 64, 65, 127, 128, 255, 256).Draw(t, "oct"))
		case 1:
			n = der.Seq(der.Int(gen.SizedBytes(20, 1).Draw(t, "int")), der.Octets(gen.SizedBytes(100, 0).Draw(t, "o2")))
		case 2:
			n = der.Seq(der.OID(1, 3, 6, 1, 4, 1, 311, 2, 1, 15), der.Seq())
		default:
			n = der.Prim(der.TagUTF8String, []byte(gen.UnicodeString(40).Draw(t, "utf8")))
		}
		out = append(out, n.Encode()...)
	}
	return out
}

func genCase(t *rapid.T) Case {
	var id gen.Identity
	if rapid.IntRange(0, 2).Draw(t, "fixedid") == 0 {
		id = rapid.SampledFrom(gen.FixedIdents()).Draw(t, "fid")
	} else {
		id = gen.Ident(!hx.Thorough() && rapid.IntRange(0, 3).Draw(t, "cheap") != 0).Draw(t, "id")
	}
	c := Case{Key: id.Key, Cert: id.Cert.Raw, TwinFirst: rapid.IntRange(0, 3).Draw(t, "twin_first") == 0}
	switch rapid.IntRange(0, 9).Draw(t, "oidkind") {
	case 0, 1, 2, 3:
		c.OID = []int{1, 2, 840, 113549, 1, 7, 1}
		max := 4096
		if rapid.IntRange(0, 15).Draw(t, "big") == 0 {
			max = 65536
		}
		c.Content = gen.SizedBytes(max, 0, 1, 55, 56, 63, 64, 65, 119, 120, 128, 65536).Draw(t, "content")
	case 4, 5, 6:
		c.OID = []int{1, 3, 6, 1, 4, 1, 311, 2, 1, 4}
		if rapid.Bool().Draw(t, "authcode") {
			c.AuthCode = true
			c.Content = gen.SizedBytes(4096, 0, 1, 64).Draw(t, "stream")
			c.ImgAlg = rapid.SampledFrom([]int{0, 0, 0, int(crypto.SHA1), int(crypto.SHA384), int(crypto.SHA512)}).Draw(t, "image_digest_algorithm")
		} else {
			c.Content = genElements(t)
		}
	default:
		n := rapid.IntRange(2, 12).Draw(t, "narcs")
		first := rapid.IntRange(0, 2).Draw(t, "a0")
		second := rapid.IntRange(0, 39).Draw(t, "a1")
		if first == 2 && rapid.Bool().Draw(t, "joint_iso_itu_arc") {
			// below joint-iso-itu-t(2) the second arc is not limited to 0..39 (2.999 is the example arc, 2.49 alerting)
			second = rapid.SampledFrom([]int{40, 47, 48, 49, 127, 128, 999, 16383, 16384}).Draw(t, "a1wide")
		}
		c.OID = []int{first, second}
		for i := 2; i < n; i++ {
			if rapid.Bool().Draw(t, "largearc") {
				c.OID = append(c.OID, rapid.IntRange(16384, 1<<31-1).Draw(t, "arc"))
			} else {
				c.OID = append(c.OID, rapid.IntRange(0, 300).Draw(t, "arc"))
			}
		}
		if rapid.IntRange(0, 4).Draw(t, "emptycontent") == 0 {
			c.Content = nil
		} else {
			c.Content = genElements(t)
		}
	}
	c.OpenSSL = rapid.IntRange(0, 9).Draw(t, "openssl") == 0 || hx.Thorough() && rapid.IntRange(0, 2).Draw(t, "openssl2") == 0
	if rapid.IntRange(0, 2).Draw(t, "utc") != 0 {
		c.TZMin = 15 * rapid.IntRange(-48, 56).Draw(t, "tzquarters")
	}
	return c
}

func arcs(o []int) []uint64 {
	out := make([]uint64, len(o))
	for i, v := range o {
		out[i] = uint64(v)
	}
	return out
}

// strictCheck: the blob is DER and has exactly the shape the statement lists.
func strictCheck(blob []byte, id gen.Identity, oid []uint64, content []byte, wantEContent bool) error {
	root, err := der.ParseOne(blob, der.Options{Strict: true})
	if err != nil {
		return fmt.Errorf("output is not strict DER: %v", err)
	}
	if !bytes.Equal(root.Encode(), blob) {
		return fmt.Errorf("output is not canonical DER (re-encoding differs)")
	}
	sd, err := cms.Locate(root)
	if err != nil {
		return fmt.Errorf("output is not a SignedData: %v", err)
	}
	if !sd.HasOuter || !der.EqualOID(sd.OuterOID, cms.OIDSignedData...) {
		return fmt.Errorf("outer ContentInfo is not signedData")
	}
	if len(sd.DigestAlgs.Children) != 1 || len(sd.DigestAlgs.Children[0].Children) < 1 || !der.EqualOID(sd.DigestAlgs.Children[0].Children[0], cms.OIDSHA256...) {
		return fmt.Errorf("digestAlgorithms is not {SHA-256}")
	}
	if !der.EqualOID(sd.EType, oid...) {
		return fmt.Errorf("encapsulated content type %x is not the requested OID", sd.EType.Content)
	}
	cands, has := sd.EContentOctets()
	if has != wantEContent {
		return fmt.Errorf("encapsulated content present=%v, want %v", has, wantEContent)
	}
	if has && !bytes.Equal(cands[0], content) {
		return fmt.Errorf("encapsulated content octets differ from the supplied content")
	}
	if sd.Certs == nil || !bytes.Equal(sd.Certs.Value(), id.Cert.Raw) {
		return fmt.Errorf("the certificate is not embedded byte-identically")
	}
	if len(sd.Signers) != 1 {
		return fmt.Errorf("%d SignerInfos", len(sd.Signers))
	}
	s := sd.Signers[0]
	if s.Issuer == nil || !bytes.Equal(s.Issuer.Encode(), id.Cert.RawIssuer) {
		return fmt.Errorf("signer issuer differs from the certificate's issuer")
	}
	if s.Serial == nil || !bytes.Equal(s.Serial.Encode(), der.Int(id.Cert.SerialNumber.Bytes()).Encode()) {
		return fmt.Errorf("signer serial %x is not the minimal encoding of %v", s.Serial.Encode(), id.Cert.SerialNumber)
	}
	if len(s.DigestAlg.Children) < 1 || !der.EqualOID(s.DigestAlg.Children[0], cms.OIDSHA256...) {
		return fmt.Errorf("SignerInfo digest algorithm is not SHA-256")
	}
	if len(s.SigAlg.Children) < 1 || !(der.EqualOID(s.SigAlg.Children[0], cms.OIDRSA...) || der.EqualOID(s.SigAlg.Children[0], cms.OIDSHA256RSA...)) {
		return fmt.Errorf("signature algorithm is not RSA")
	}
	if s.Attrs == nil {
		return fmt.Errorf("no signed attributes")
	}
	// DER SET OF: the attributes must appear in ascending order of their encodings
	for i := 1; i < len(s.Attrs.Children); i++ {
		if bytes.Compare(s.Attrs.Children[i-1].Encode(), s.Attrs.Children[i].Encode()) > 0 {
			return fmt.Errorf("signed attributes are not in DER SET OF order (attribute %d sorts after attribute %d): independent implementations re-encode the SET before verifying", i-1, i)
		}
	}
	ct := s.AttrValues(cms.OIDContentType)
	if len(ct) != 1 || !der.EqualOID(ct[0], oid...) {
		return fmt.Errorf("contentType attribute is not the requested OID")
	}
	md := s.AttrValues(cms.OIDMessageDigest)
	want := sha256.Sum256(content)
	if len(md) != 1 || !md[0].Is(der.ClassUniversal, der.TagOctetString) || !bytes.Equal(md[0].Value(), want[:]) {
		return fmt.Errorf("messageDigest attribute is not SHA-256 of the content")
	}
	for _, st := range s.AttrValues(cms.OIDSigningTime) {
		if !st.Is(der.ClassUniversal, der.TagUTCTime) {
			return fmt.Errorf("signingTime is not a UTCTime")
		}
		if _, err := time.Parse("060102150405Z", string(st.Value())); err != nil {
			return fmt.Errorf("signingTime %q is malformed", st.Value())
		}
	}
	h := sha256.Sum256(s.SignedAttrBytes())
	pub := id.Cert.PublicKey.(*rsa.PublicKey)
	if err := rsa.VerifyPKCS1v15(pub, crypto.SHA256, h[:], s.Sig.Value()); err != nil {
		return fmt.Errorf("RSA PKCS#1 v1.5 signature does not verify over the DER SET of the attributes: %v", err)
	}
	if len(s.Sig.Value()) != pub.Size() {
		return fmt.Errorf("signature has %d bytes for a %d-byte modulus", len(s.Sig.Value()), pub.Size())
	}
	return nil
}

func firstDiff(a, b []byte) int {
	i := 0
	for i < len(a) && i < len(b) && a[i] == b[i] {
		i++
	}
	return i
}

func mozillaVerify(blob, content []byte, detached bool) error {
	p, err := mozilla.Parse(blob)
	if err != nil {
		return fmt.Errorf("parse: %v", err)
	}
	if detached {
		p.Content = content
	}
	return p.Verify()
}


// refusingSigner is a key that cannot be used right now (a token that is locked, an agent that went away): it
// names the right public key and every Sign call fails.
type refusingSigner struct{ pub crypto.PublicKey }

func (r refusingSigner) Public() crypto.PublicKey { return r.pub }
func (r refusingSigner) Sign(io.Reader, []byte, crypto.SignerOpts) ([]byte, error) {
	return nil, errors.New("signer refuses")
}

func checkCase(c Case) error {
	id, err := gen.ParseIdent(c.Key, c.Cert)
	if err != nil {
		return fmt.Errorf("bad case: %v", err)
	}
	oid := encasn1.ObjectIdentifier(c.OID)
	isData := oid.Equal(pkcs7.OIDData)
	content := []byte(c.Content)
	if c.TZMin != 0 {
		saved := time.Local
		time.Local = time.FixedZone("verif", c.TZMin*60)
		defer func() { time.Local = saved }()
		hx.Class("process_time_zone_not_utc")
	}
	// "any certificate": one case in five signs with a certificate on the same key, names and serial that expired a
	// year ago or becomes valid next year (what db and KEK certificates on real machines often are). go.mozilla.org/pkcs7
	// insists that the certificate be valid at the signing time - its policy, not a property of the SignedData - and is
	// left out for these; everything else, the library's own verification included, is asked as usual
	outOfValidity := false
	if k := len(c.Content) % 5; (k == 2 || k == 4) && id.Key >= 0 {
		if id2, verr := gen.WithValidity(id, k/2); verr == nil {
			id, outOfValidity = id2, true
			hx.Class("certificate_outside_its_validity_period")
		}
	}
	var blob []byte
	imgAlg := crypto.SHA256
	if c.ImgAlg != 0 {
		imgAlg = crypto.Hash(c.ImgAlg)
	}
	if len(c.Content)%3 == 0 {
		// a first attempt with a key that refuses (other content): the signature made next must not be affected
		if _, ferr := pkcs7.SignPKCS7(refusingSigner{id.Priv().Public()}, id.Cert, oid, append([]byte("refused attempt: "), c.Content...)); ferr != nil {
			hx.Class("failed_sign_attempt_first")
		}
		authenticode.SignAuthenticode(refusingSigner{id.Priv().Public()}, id.Cert, bytes.NewReader(append([]byte("refused"), c.Content...)), crypto.SHA256)
	}
	if c.AuthCode {
		blob, err = authenticode.SignAuthenticode(id.Priv(), id.Cert, bytes.NewReader(c.Content), imgAlg)
		if err != nil {
			return fmt.Errorf("SignAuthenticode: %v", err)
		}
		ih := imgAlg.New()
		ih.Write(c.Content)
		d := ih.Sum(nil)
		content, err = authenticode.CreateSpcIndirectDataContent(d[:], imgAlg)
		if err != nil {
			return fmt.Errorf("CreateSpcIndirectDataContent: %v", err)
		}
		if imgAlg != crypto.SHA256 {
			hx.Class("SignAuthenticode_with_another_image_digest_algorithm")
		}
		// the content must be the specification's SpcIndirectDataContent for that digest
		if !bytes.HasSuffix(content, d[:]) {
			return fmt.Errorf("SpcIndirectDataContent does not end with the stream digest")
		}
	} else {
		blob, err = pkcs7.SignPKCS7(id.Priv(), id.Cert, oid, content)
		if err != nil {
			return fmt.Errorf("SignPKCS7: %v", err)
		}
	}
	// results are independent values: a second signature (other content) must not disturb the first
	keep := append([]byte{}, blob...)
	if _, err := pkcs7.SignPKCS7(id.Priv(), id.Cert, oid, append([]byte{0x04, 0x01}, byte(len(blob)))); err != nil {
		return fmt.Errorf("second SignPKCS7: %v", err)
	}
	if !bytes.Equal(keep, blob) {
		return fmt.Errorf("the bytes returned by SignPKCS7 changed when another signature was made (first difference at %d of %d)", firstDiff(keep, blob), len(blob))
	}
	detached := isData || len(content) == 0
	// classification
	ser := id.Cert.SerialNumber.Bytes()
	edgeSerial := len(ser) > 0 && (ser[0]&0x80 != 0 || len(ser) >= 16)
	multiRDN := len(id.Cert.Subject.Names) >= 2
	if isData {
		hx.Class("oid/data")
	} else if c.AuthCode {
		hx.Class("oid/spc_via_SignAuthenticode")
	} else if oid.Equal(authenticode.OIDSpcIndirectDataContent) {
		hx.Class("oid/spc")
	} else {
		hx.Class("oid/arbitrary")
	}
	hx.Class(fmt.Sprintf("key/%d", id.Priv().N.BitLen()))
	if edgeSerial {
		hx.Class("serial_high_bit_or_long")
	}
	if multiRDN {
		hx.Class("issuer_multi_rdn")
	}
	if len(content) == 0 {
		hx.Class("content_empty")
	}
	if len(content) > 4096 {
		hx.Class("content_gt_4096")
	}
	if len(content) >= 1 && (edgeSerial || multiRDN || !isData || id.Priv().N.BitLen() != 2048) {
		hx.NonTrivial(content, c.Cert, []byte(fmt.Sprint(c.OID)))
		if hx.WantSample() && len(content) < 200 {
			hx.Sample(map[string]any{"oid": c.OID, "content_hex": hx.Hex(content), "key_bits": id.Priv().N.BitLen(), "serial": id.Cert.SerialNumber.String(), "issuer": id.Cert.Issuer.String()})
		}
	}

	// (1) strict structural check with stdlib crypto
	if err := strictCheck(blob, id, arcs(c.OID), content, !detached); err != nil {
		return fmt.Errorf("produced SignedData (%d bytes, oid %v, %d content bytes): %v", len(blob), c.OID, len(content), err)
	}
	tampered := append([]byte{}, content...)
	if len(tampered) > 0 {
		tampered[len(tampered)/2] ^= 0x01
	} else {
		tampered = []byte{0}
	}
	// (2) go.mozilla.org/pkcs7
	if !outOfValidity {
		if err := mozillaVerify(blob, content, detached); err != nil {
			return fmt.Errorf("go.mozilla.org/pkcs7 rejects the produced signature (oid %v, %d content bytes): %v", c.OID, len(content), err)
		}
		hx.Class("mozilla_accepts")
		if detached {
			if mozillaVerify(blob, tampered, true) == nil {
				return fmt.Errorf("go.mozilla.org/pkcs7 accepts the produced signature over different content")
			}
		}
	}
	// reference verifier accepts and rejects
	if v := cms.Accepts(blob, id.Cert); !v.OK {
		return fmt.Errorf("reference verifier rejects the produced signature: %s", v.Reason)
	}
	// (3) openssl
	if c.OpenSSL && ossl.Available() {
		ok, out, se := ossl.SmimeVerify(blob, content, detached)
		if !ok {
			return fmt.Errorf("openssl smime -verify rejects the produced signature (oid %v, %d content bytes): %s", c.OID, len(content), se)
		}
		if detached && !bytes.Equal(out, content) {
			return fmt.Errorf("openssl smime -verify returned other content")
		}
		hx.Class("openssl_smime_accepts")
		if detached {
			if ok, _, _ := ossl.SmimeVerify(blob, tampered, true); ok {
				return fmt.Errorf("openssl smime -verify accepts the produced signature over different content")
			}
			hx.Class("openssl_smime_rejects_other_content")
		}
		if isData {
			if ok, _, se := ossl.CmsVerify(blob, content, true); !ok {
				return fmt.Errorf("openssl cms -verify rejects the produced signature: %s", se)
			}
			hx.Class("openssl_cms_accepts")
		}
	}
	// (4) the library's own parser and verifier
	p, err := pkcs7.ParsePKCS7(blob)
	if err != nil {
		return fmt.Errorf("the library does not parse its own signature: %v", err)
	}
	// what the parser recovered has to be the same before and after the object has been asked to verify
	recovered := func(when string) error {
		if !p.OID.Equal(oid) {
			return fmt.Errorf("own parser (%s): content type %v, want %v", when, p.OID, oid)
		}
		if detached {
			if len(p.ContentInfo) != 0 {
				return fmt.Errorf("own parser (%s): %d content bytes for a detached signature", when, len(p.ContentInfo))
			}
		} else {
			el, err := der.ParseOne(p.ContentInfo, der.Options{})
			if err != nil || !bytes.Equal(el.RawValue(), content) {
				return fmt.Errorf("own parser (%s): content is not the supplied content", when)
			}
		}
		if len(p.Certs) != 1 || !bytes.Equal(p.Certs[0].Raw, id.Cert.Raw) {
			return fmt.Errorf("own parser (%s): certificate not recovered", when)
		}
		if len(p.SignerInfo) != 1 || p.SignerInfo[0].AuthenticatedAttributes == nil {
			return fmt.Errorf("own parser (%s): signer / attributes not recovered", when)
		}
		at := p.SignerInfo[0].AuthenticatedAttributes
		want := sha256.Sum256(content)
		if !at.ContentType.Equal(oid) || !bytes.Equal(at.MessageDigest, want[:]) {
			return fmt.Errorf("own parser (%s): attributes (contentType %v, messageDigest %x) differ from (%v, %x)", when, at.ContentType, at.MessageDigest, oid, want)
		}
		return nil
	}
	if err := recovered("after parsing"); err != nil {
		return err
	}
	if c.TwinFirst {
		if tw, terr := gen.Twin(id, (id.Key+1)%len(gen.Keys())); terr == nil {
			if ok, err := p.Verify(tw.Cert); ok && err == nil {
				return fmt.Errorf("the library's own verification accepts the produced signature for a certificate with the signer's issuer and serial and another key")
			}
			hx.Class("asked_about_a_same_named_certificate_with_another_key_first")
		}
	}
	if ok, err := p.Verify(id.Cert); !ok || err != nil {
		return fmt.Errorf("the library's own verification rejects the produced signature: %v, %v", ok, err)
	}
	if err := recovered("after one verification"); err != nil {
		return err
	}
	if ok, err := p.Verify(id.Cert); !ok || err != nil {
		return fmt.Errorf("the library's own verification rejects the produced signature when the parsed object is asked a second time: %v, %v", ok, err)
	}
	if err := recovered("after two verifications"); err != nil {
		return err
	}
	if c.AuthCode && imgAlg == crypto.SHA256 {
		a, err := authenticode.ParseAuthenticode(blob)
		if err != nil {
			return fmt.Errorf("ParseAuthenticode of SignAuthenticode output: %v", err)
		}
		d := sha256.Sum256(c.Content)
		if !bytes.Equal(a.Digest, d[:]) {
			return fmt.Errorf("ParseAuthenticode digest %x, stream digest %x", a.Digest, d)
		}
		if ok, err := a.Verify(id.Cert, bytes.NewReader(c.Content)); !ok || err != nil {
			return fmt.Errorf("Authenticode.Verify rejects SignAuthenticode output: %v %v", ok, err)
		}
		if ok, err := a.Verify(id.Cert, bytes.NewReader(c.Content)); !ok || err != nil {
			return fmt.Errorf("Authenticode.Verify rejects SignAuthenticode output when the parsed object is asked a second time: %v %v", ok, err)
		}
		if !bytes.Equal(a.Digest, d[:]) {
			return fmt.Errorf("ParseAuthenticode digest changed by verification: %x, stream digest %x", a.Digest, d)
		}
	}
	return nil
}

var checker = hx.Checker[Case]{Property: "C05", Gen: genCase, Check: checkCase}

func TestC05(t *testing.T) {
	defer ossl.Cleanup()
	hx.SetExtra("openssl_available", ossl.Available())
	checker.Rapid(t)
}
func TestC05Replay(t *testing.T) { defer ossl.Cleanup(); checker.Replay(t) }

// TestC05Pinned: the strict checker and the second/third implementations must
// accept an independently produced (harness-made, OpenSSL-style) signature and
// the strict checker must reject known-bad shapes.
func TestC05Pinned(t *testing.T) {
	defer ossl.Cleanup()
	id := gen.FixedIdents()[0]
	content := []byte("oracle self-check content")
	attrs := cms.SortSetOf([]*der.Node{
		cms.Attr(cms.OIDContentType, der.OID(cms.OIDData...)),
		cms.Attr(cms.OIDMessageDigest, der.Octets(cms.Digest(content))),
	})
	blob, err := cms.Build(id.Priv(), id.Cert, cms.BuildOpts{ContentType: cms.OIDData, Attrs: attrs, Certs: [][]byte{id.Cert.Raw}, Outer: true, SDVersion: 1, SIVersion: 1, DigestNull: true, SigAlgNull: true})
	if err != nil {
		t.Fatal(err)
	}
	if err := strictCheck(blob, id, cms.OIDData, content, false); err != nil {
		t.Fatalf("ORACLE-SELFCHECK-FAIL strict checker rejects a harness-made signature: %v", err)
	}
	if err := mozillaVerify(blob, content, true); err != nil {
		t.Fatalf("ORACLE-SELFCHECK-FAIL mozilla rejects a harness-made signature: %v", err)
	}
	// unsorted attributes must be noticed by the strict checker and by mozilla
	rev := []*der.Node{attrs[1], attrs[0]}
	bad, _ := cms.Build(id.Priv(), id.Cert, cms.BuildOpts{ContentType: cms.OIDData, Attrs: rev, Certs: [][]byte{id.Cert.Raw}, Outer: true, SDVersion: 1, SIVersion: 1, DigestNull: true, SigAlgNull: true})
	if strictCheck(bad, id, cms.OIDData, content, false) == nil {
		t.Fatalf("ORACLE-SELFCHECK-FAIL strict checker accepts unsorted attributes")
	}
	note := "openssl not available"
	if ossl.Available() {
		if ok, _, se := ossl.SmimeVerify(blob, content, true); !ok {
			t.Fatalf("ORACLE-SELFCHECK-FAIL openssl rejects a harness-made signature: %s", se)
		}
		if ok, _, _ := ossl.SmimeVerify(bad, content, true); ok {
			note = "openssl accepts harness-made signature; tolerates unsorted attributes"
		} else {
			note = "openssl accepts harness-made signature and rejects unsorted attributes"
		}
	}
	fmt.Printf("ORACLE-SELFCHECK-OK strict checker and go.mozilla.org/pkcs7 accept a harness-made signature, strict checker rejects unsorted attributes; %s\n", note)
}
