// C07 — signature-database encoding and decoding are inverses on well-formed data.
package c07

import (
	"bytes"
	"crypto/sha256"
	"encoding/pem"
	"fmt"
	"testing"

	"pgregory.net/rapid"

	"github.com/foxboron/go-uefi/efi/signature"
	"github.com/foxboron/go-uefi/efi/util"

	"verifharness/adapt"
	"verifharness/gen"
	"verifharness/hx"
	"verifharness/ref/esl"
	"verifharness/ref/guid"
)

// Op is one builder operation of the second direction (database built through
// the library's own operations).
type Op struct {
	Kind  string // append | append_bad (SHA-256 value of a wrong size: must leave a well-formed database) | remove | appendlist
	Type  string // x509 | sha256 | extmgm
	Owner hx.Hex // 16 bytes, big-endian fields
	Data  hx.Hex
	Pick  int      // remove: index into the current flattened entries (mod n)
	More  []hx.Hex // appendlist: further entries of the same size
}

type Case struct {
	Stream hx.Hex // a well-formed stream built by the reference encoder
	Ops    []Op   // operations applied to the database decoded from Stream
	Giant  int    // > 0: the stream is gen.GiantESL(Giant) (tens of MiB, rebuilt when the case runs) instead of Stream
}

func typeOf(s string) guid.G {
	switch s {
	case "x509":
		return esl.X509
	case "sha256":
		return esl.SHA256
	default:
		return esl.ExtMgm
	}
}

func genOp(t *rapid.T) Op {
	op := Op{Owner: gen.Owner().Draw(t, "owner").BE()}
	switch rapid.IntRange(0, 10).Draw(t, "kind") {
	case 10:
		op.Kind, op.Type = "append_bad", "sha256"
		op.Data = gen.FillBytes(t, rapid.SampledFrom([]int{0, 20, 31, 33, 48, 64}).Draw(t, "badlen"))
		return op
	case 0, 1, 2, 3, 4:
		op.Kind = "append"
	case 5, 6, 7:
		op.Kind = "remove"
		op.Pick = rapid.IntRange(0, 1000).Draw(t, "pick")
		return op
	default:
		op.Kind = "appendlist"
	}
	op.Type = rapid.SampledFrom([]string{"x509", "x509", "sha256", "sha256", "extmgm"}).Draw(t, "type")
	n := 0
	switch op.Type {
	case "x509":
		n = rapid.SampledFrom([]int{1, 5, 32, 33, 300, 301, 800}).Draw(t, "len")
	case "sha256":
		n = 32
		if op.Kind == "appendlist" && rapid.IntRange(0, 3).Draw(t, "badfirst") == 0 {
			// a list-level append of something that is not a SHA-256 hash: must be refused, also on an empty list
			n = rapid.SampledFrom([]int{0, 20, 31, 33, 48, 64}).Draw(t, "badlen")
		}
	default:
		n = 1
	}
	op.Data = gen.FillBytes(t, n)
	if op.Kind == "appendlist" {
		for i := rapid.IntRange(0, 2).Draw(t, "more"); i > 0; i-- {
			op.More = append(op.More, gen.FillBytes(t, n))
		}
	}
	return op
}

func genCase(t *rapid.T) Case {
	if den := uint64(2500); gen.Chance(t, "giant", 1, den) {
		// sizes the format allows and the other cases never reach: any certificate size, any count, any total
		return Case{Giant: rapid.SampledFrom([]int{1, 1, 2, 2, 3}).Draw(t, "giantkind")}
	}
	lists := gen.ESLStreamHuge(6).Draw(t, "stream")
	c := Case{}
	if rapid.Bool().Draw(t, "withops") {
		c.Ops = rapid.SliceOfN(rapid.Custom(genOp), 1, 12).Draw(t, "ops")
	} else {
		lists = gen.WithPEMText(t, lists)
	}
	c.Stream = esl.Encode(lists)
	return c
}

func checkStream(stream []byte) (signature.SignatureDatabase, []esl.List, error) {
	want, err := esl.Decode(stream)
	if err != nil {
		return nil, nil, fmt.Errorf("bad case: stream is not well-formed: %v", err)
	}
	db, err := signature.ReadSignatureDatabase(bytes.NewReader(stream))
	if err != nil {
		return nil, nil, fmt.Errorf("ReadSignatureDatabase rejects a well-formed stream of %d lists (%d bytes): %v", len(want), len(stream), err)
	}
	got, err := adapt.DBFromLib(db)
	if err != nil {
		return nil, nil, fmt.Errorf("decoded database is inconsistent: %v", err)
	}
	if err := esl.EqualLists(got, want); err != nil {
		return nil, nil, fmt.Errorf("decoded database differs from the specification's layout (library vs reference): %v", err)
	}
	if b := db.Bytes(); !bytes.Equal(b, stream) {
		return nil, nil, fmt.Errorf("Bytes() of the decoded database does not reproduce the input: %d bytes in, %d bytes out", len(stream), len(b))
	}
	// the merge route: the decoded database appended to an empty one is the same database, so it encodes to the same
	// stream (lists without entries, which keep their size field, included) and that stream decodes again
	var merged signature.SignatureDatabase
	merged.AppendDatabase(&db)
	if b := merged.Bytes(); !bytes.Equal(b, stream) {
		return nil, nil, fmt.Errorf("an empty database with the decoded database appended (AppendDatabase) encodes to %d bytes, the decoded database to %d; equal prefix %d", len(b), len(stream), commonPrefixLen(b, stream))
	}
	var mb bytes.Buffer
	db.Marshal(&mb)
	if !bytes.Equal(mb.Bytes(), stream) {
		return nil, nil, fmt.Errorf("Marshal() of the decoded database does not reproduce the input: %d bytes in, %d bytes out", len(stream), mb.Len())
	}
	// every encoding entry point writes the same bytes: the database writer, and per list and per entry the
	// writer functions and the Bytes methods, each compared with the reference encoding of that element
	var wb bytes.Buffer
	signature.WriteSignatureDatabase(&wb, db)
	if !bytes.Equal(wb.Bytes(), stream) {
		return nil, nil, fmt.Errorf("WriteSignatureDatabase of the decoded database does not reproduce the input: %d bytes in, %d bytes out", len(stream), wb.Len())
	}
	if len(db) != len(want) {
		return nil, nil, fmt.Errorf("decoded database has %d lists, the stream %d", len(db), len(want))
	}
	for i, l := range db {
		refList := esl.Encode(want[i : i+1])
		var lb bytes.Buffer
		signature.WriteSignatureList(&lb, *l)
		if !bytes.Equal(lb.Bytes(), refList) {
			return nil, nil, fmt.Errorf("WriteSignatureList of list %d differs from the specification's encoding of that list (%d vs %d bytes)", i, lb.Len(), len(refList))
		}
		if !bytes.Equal(l.Bytes(), refList) {
			return nil, nil, fmt.Errorf("SignatureList.Bytes of list %d differs from the specification's encoding of that list", i)
		}
		// a list on its own is a one-list stream: it decodes through the list reader to itself
		rl, err := signature.ReadSignatureList(bytes.NewReader(refList))
		if err != nil {
			return nil, nil, fmt.Errorf("ReadSignatureList rejects list %d of a well-formed stream: %v", i, err)
		}
		if !bytes.Equal(rl.Bytes(), refList) {
			return nil, nil, fmt.Errorf("ReadSignatureList + Bytes does not reproduce list %d", i)
		}
		if len(l.Signatures) != len(want[i].Entries) {
			return nil, nil, fmt.Errorf("list %d has %d entries, the stream defines %d", i, len(l.Signatures), len(want[i].Entries))
		}
		for j := range l.Signatures {
			refEntry := append(append([]byte{}, want[i].Entries[j].Owner.Wire()...), want[i].Entries[j].Data...)
			var eb bytes.Buffer
			signature.WriteSignatureData(&eb, l.Signatures[j])
			if !bytes.Equal(eb.Bytes(), refEntry) {
				return nil, nil, fmt.Errorf("WriteSignatureData of entry %d of list %d differs from owner GUID (wire layout) followed by the data", j, i)
			}
			if !bytes.Equal(l.Signatures[j].Bytes(), refEntry) {
				return nil, nil, fmt.Errorf("SignatureData.Bytes of entry %d of list %d differs from owner GUID (wire layout) followed by the data", j, i)
			}
			re, err := signature.ReadSignatureData(bytes.NewReader(refEntry), uint32(len(refEntry)))
			if err != nil {
				return nil, nil, fmt.Errorf("ReadSignatureData rejects entry %d of list %d: %v", j, i, err)
			}
			if !bytes.Equal(re.Bytes(), refEntry) {
				return nil, nil, fmt.Errorf("ReadSignatureData + Bytes does not reproduce entry %d of list %d", j, i)
			}
		}
	}
	// the same through a reader that offers nothing but Read, in small chunks (a file, a pipe)
	for _, chunk := range []int{0, 7} {
		pr := &hx.PlainReader{R: bytes.NewReader(stream), Chunk: chunk}
		dbp, err := signature.ReadSignatureDatabase(pr)
		if err != nil {
			return nil, nil, fmt.Errorf("ReadSignatureDatabase through a plain io.Reader (chunk %d) rejects a well-formed stream: %v", chunk, err)
		}
		if !bytes.Equal(dbp.Bytes(), stream) {
			return nil, nil, fmt.Errorf("ReadSignatureDatabase through a plain io.Reader (chunk %d) decodes another database: %d lists, %d bytes re-encoded of %d", chunk, len(dbp), len(dbp.Bytes()), len(stream))
		}
	}
	// encoding into a buffer that already holds bytes appends, and touches nothing before
	pre := bytes.NewBufferString("prefix-bytes-0123456789")
	db.Marshal(pre)
	if !bytes.Equal(pre.Bytes(), append([]byte("prefix-bytes-0123456789"), stream...)) {
		return nil, nil, fmt.Errorf("Marshal into a non-empty buffer does not append the encoding to what was there")
	}
	var db2 signature.SignatureDatabase
	src := append([]byte{}, stream...)
	if err := db2.Unmarshal(bytes.NewBuffer(src)); err != nil {
		return nil, nil, fmt.Errorf("Unmarshal rejects a well-formed stream: %v", err)
	}
	// the decoded database is a value of its own: the caller may reuse the buffer it was decoded from
	for i := range src {
		src[i] ^= 0xa5
	}
	if !bytes.Equal(db2.Bytes(), stream) {
		return nil, nil, fmt.Errorf("Unmarshal+Bytes does not reproduce the input once the source buffer has been reused (the decoded database shares memory with its input)")
	}
	// encodings are values of their own: they stay what they are while other databases, lists and entries are encoded
	keepDB := db.Bytes()
	var keepList, keepEntry, wantList, wantEntry []byte
	if len(db) > 0 {
		keepList, wantList = db[0].Bytes(), esl.Encode(want[:1])
		if len(db[0].Signatures) > 0 {
			keepEntry = db[0].Signatures[0].Bytes()
			wantEntry = append(append([]byte{}, want[0].Entries[0].Owner.Wire()...), want[0].Entries[0].Data...)
		}
	}
	other := signature.SignatureDatabase{}
	for i := 0; i < 3; i++ {
		h := sha256.Sum256([]byte{byte(i), byte(len(stream))})
		if err := other.Append(signature.CERT_SHA256_GUID, util.EFIGUID{Data1: uint32(i + 1)}, h[:]); err != nil {
			return nil, nil, fmt.Errorf("bad case: building the other database: %v", err)
		}
	}
	_ = other.Append(signature.CERT_X509_GUID, util.EFIGUID{Data1: 9}, bytes.Repeat([]byte{0x5a}, 1+len(stream)%97))
	_ = other.Bytes()
	for _, l := range other {
		_ = l.Bytes()
		for j := range l.Signatures {
			_ = l.Signatures[j].Bytes()
		}
	}
	if !bytes.Equal(keepDB, stream) || !bytes.Equal(keepList, wantList) || !bytes.Equal(keepEntry, wantEntry) {
		return nil, nil, fmt.Errorf("the result of Bytes() (database, first list or first entry) changed after another database, its lists and entries were encoded: the results share memory")
	}
	// Unmarshal defines the receiver: what a database value held before (the same stream, or another database)
	// is not part of what the stream decodes to
	if err := db2.Unmarshal(bytes.NewBuffer(append([]byte{}, stream...))); err != nil {
		return nil, nil, fmt.Errorf("Unmarshal into a database value that was decoded into before rejects a well-formed stream: %v", err)
	}
	if !bytes.Equal(db2.Bytes(), stream) {
		return nil, nil, fmt.Errorf("Unmarshal into a database value that already held %d lists does not yield the database the stream defines: %d lists, %d bytes re-encoded of %d", len(want), len(db2), len(db2.Bytes()), len(stream))
	}
	db3 := signature.SignatureDatabase{}
	if err := db3.Append(signature.CERT_SHA256_GUID, util.EFIGUID{Data1: 7}, make([]byte, 32)); err == nil {
		if err := db3.Unmarshal(bytes.NewBuffer(append([]byte{}, stream...))); err != nil {
			return nil, nil, fmt.Errorf("Unmarshal into a database value that was built before rejects a well-formed stream: %v", err)
		}
		if !bytes.Equal(db3.Bytes(), stream) {
			return nil, nil, fmt.Errorf("Unmarshal into a database value that already held a list does not yield the database the stream defines: %d lists, %d bytes re-encoded of %d", len(db3), len(db3.Bytes()), len(stream))
		}
	}
	return db, want, nil
}

func commonPrefixLen(a, b []byte) int {
	n := 0
	for n < len(a) && n < len(b) && a[n] == b[n] {
		n++
	}
	return n
}

func checkCase(c Case) error {
	if c.Giant > 0 {
		c.Stream = esl.Encode(gen.GiantESL(c.Giant))
		c.Ops = nil
		hx.Class(fmt.Sprintf("stream_of_%d_MiB", len(c.Stream)>>20))
	}
	db, want, err := checkStream(c.Stream)
	if err != nil {
		return err
	}
	nEntries := len(esl.Flatten(want))
	ext, empty := false, false
	for _, l := range want {
		if l.Type == esl.ExtMgm {
			ext = true
		}
		if len(l.Entries) == 0 {
			empty = true
		}
	}
	if len(want) >= 2 {
		hx.Class("stream_multi_list")
	}
	if ext {
		hx.Class("stream_external_management")
	}
	if empty {
		hx.Class("stream_empty_list")
	}
	if len(want) == 0 {
		hx.Class("stream_empty")
	}
	if len(c.Ops) > 0 {
		hx.Class("with_builder_ops")
	}
	if len(want) >= 2 || nEntries >= 2 || ext || empty {
		hx.NonTrivial(c.Stream, []byte(fmt.Sprint(c.Ops)))
		if hx.WantSample() {
			hx.Sample(map[string]any{"stream_hex": hx.Hex(c.Stream), "lists": len(want), "entries": nEntries, "ops": c.Ops})
		}
	}

	// second direction: databases built through the library's own operations
	for i, op := range c.Ops {
		if len(op.Owner) != 16 {
			return fmt.Errorf("bad case: owner")
		}
		owner := adapt.Lib(guid.FromBE(op.Owner))
		ty := adapt.Lib(typeOf(op.Type))
		switch op.Kind {
		case "append_bad":
			hx.Class("op_append_wrong_size")
			before := append([]byte{}, db.Bytes()...)
			if err := db.Append(ty, owner, op.Data); err == nil {
				return fmt.Errorf("op %d: Append of a %d-byte value as SHA-256 hash reports success", i, len(op.Data))
			}
			if !bytes.Equal(db.Bytes(), before) {
				return fmt.Errorf("op %d: a refused Append changed the database encoding (%d -> %d bytes)", i, len(before), len(db.Bytes()))
			}
		case "append":
			hx.Class("op_append")
			_ = db.Append(ty, owner, op.Data) // duplicates / wrong sizes are refused; either outcome must leave a well-formed database
		case "remove":
			cur, err := adapt.DBFromLib(db)
			if err != nil {
				return fmt.Errorf("after op %d: %v", i, err)
			}
			fl := esl.Flatten(cur)
			if len(fl) == 0 {
				hx.Class("op_remove_on_empty")
				continue
			}
			e := fl[op.Pick%len(fl)]
			hx.Class("op_remove")
			if err := db.Remove(adapt.Lib(e.Type), adapt.Lib(e.Owner), e.Data); err != nil {
				return fmt.Errorf("op %d: Remove of an entry that is in the database fails: %v", i, err)
			}
		case "appendlist":
			hx.Class("op_appendlist")
			l := signature.NewSignatureList(ty)
			first := []byte(op.Data)
			if op.Type == "x509" && len(op.Data)%2 == 0 {
				// certificates may be handed over as PEM: the list must then hold (and be sized for) the DER bytes
				first = pem.EncodeToMemory(&pem.Block{Type: "CERTIFICATE", Bytes: op.Data})
				hx.Class("op_appendlist_pem")
			}
			// both list-level routes: the bytes, or the entry as a value
			var lerr error
			if len(op.More)%2 == 0 {
				lerr = l.AppendBytes(owner, first)
			} else {
				hx.Class("op_appendlist_through_AppendSignature")
				lerr = l.AppendSignature(signature.SignatureData{Owner: owner, Data: first})
			}
			if op.Type == "sha256" && len(op.Data) != 32 {
				hx.Class("op_appendlist_not_a_hash")
				if lerr == nil {
					return fmt.Errorf("op %d: list-level append of %d bytes to an empty SHA-256 list reports success", i, len(op.Data))
				}
				break
			}
			if lerr != nil {
				return fmt.Errorf("op %d: list-level append on an empty list fails: %v", i, lerr)
			}
			for k, m := range op.More {
				if k%2 == 0 {
					_ = l.AppendBytes(owner, m)
				} else {
					_ = l.AppendSignature(signature.SignatureData{Owner: owner, Data: m})
				}
			}
			db.AppendList(l)
		default:
			return fmt.Errorf("bad case: op kind %q", op.Kind)
		}
		cur, err := adapt.DBFromLib(db)
		if err != nil {
			return fmt.Errorf("after op %d (%s): database is not well-formed: %v", i, op.Kind, err)
		}
		enc := db.Bytes()
		if !bytes.Equal(enc, esl.Encode(cur)) {
			return fmt.Errorf("after op %d (%s): Bytes() differs from the reference encoding of the same lists", i, op.Kind)
		}
		dec, err := esl.Decode(enc)
		if err != nil {
			return fmt.Errorf("after op %d (%s): Bytes() is not a well-formed stream: %v", i, op.Kind, err)
		}
		if err := esl.EqualLists(dec, cur); err != nil {
			return fmt.Errorf("after op %d (%s): encoded stream decodes (reference) to another database: %v", i, op.Kind, err)
		}
		db3, err := signature.ReadSignatureDatabase(bytes.NewReader(enc))
		if err != nil {
			return fmt.Errorf("after op %d (%s): the library does not decode its own encoding: %v", i, op.Kind, err)
		}
		got3, err := adapt.DBFromLib(db3)
		if err != nil {
			return fmt.Errorf("after op %d (%s): re-decoded database inconsistent: %v", i, op.Kind, err)
		}
		if err := esl.EqualLists(got3, cur); err != nil {
			return fmt.Errorf("after op %d (%s): re-decoded database is not equal: %v", i, op.Kind, err)
		}
	}
	return nil
}

var checker = hx.Checker[Case]{Property: "C07", Gen: genCase, Check: checkCase}

func TestC07(t *testing.T)       { checker.Rapid(t) }
func TestC07Replay(t *testing.T) { checker.Replay(t) }

// TestC07Pinned: the reference codec must agree with the library on the
// repository's own fixtures (oracle self-check) — ESL files and captured
// variables (4 attribute bytes + ESL stream).
func TestC07Pinned(t *testing.T) {
	n := 0
	for _, f := range []struct {
		path string
		skip int
	}{
		{"tests/data/signatures/siglist/PK.der.esl", 0},
		{"tests/data/signatures/siglist/KEK.der.esl", 0},
		{"tests/data/signatures/siglist/db.der.esl", 0},
		{"tests/data/signatures/siglistchecksum/sha256.bin.siglist", 0},
		{"efi/signature/testdata/db", 4},
		{"efi/signature/testdata/kek", 4},
		{"efi/signature/testdata/dbdefault", 4},
	} {
		b, ok := hx.RepoFile(f.path)
		if !ok || len(b) < f.skip {
			continue
		}
		b = b[f.skip:]
		ls, err := esl.Decode(b)
		if err != nil {
			t.Fatalf("ORACLE-SELFCHECK-FAIL reference rejects fixture %s: %v", f.path, err)
		}
		if !bytes.Equal(esl.Encode(ls), b) {
			t.Fatalf("ORACLE-SELFCHECK-FAIL reference does not round-trip fixture %s", f.path)
		}
		n++
	}
	fmt.Printf("ORACLE-SELFCHECK-OK reference ESL codec round-trips %d repository fixtures\n", n)
}
