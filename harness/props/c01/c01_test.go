// C01 — image digest equals the Authenticode PE hash defined by the specification.
package c01

import (
	"bytes"
	"crypto"
	_ "crypto/sha1"
	_ "crypto/sha512"
	"encoding/hex"
	"fmt"
	"testing"

	"pgregory.net/rapid"

	"github.com/foxboron/go-uefi/authenticode"

	"verifharness/gen"
	"verifharness/hx"
	"verifharness/ref/pehash"
)

type Flip struct {
	Pos int
	Xor byte
}

type Case struct {
	Img   hx.Hex
	Flips []Flip
	All   bool // flip every position (small images, thorough tier)
}

// interesting offsets of an image: the boundaries of every region.
func interesting(l *pehash.Layout, n int) []int {
	c := []int{0, 1, 0x3c, 63, l.Lfanew - 1, l.Lfanew, l.Lfanew + 4, l.Lfanew + 6, l.Lfanew + 20, l.OptOff, l.OptOff + 1, l.OptOff + 60, l.OptOff + 63,
		l.CksumOff - 1, l.CksumOff, l.CksumOff + 1, l.CksumOff + 2, l.CksumOff + 3, l.CksumOff + 4,
		l.DD4Off - 1, l.DD4Off, l.DD4Off + 1, l.DD4Off + 2, l.DD4Off + 3, l.DD4Off + 4, l.DD4Off + 5, l.DD4Off + 6, l.DD4Off + 7, l.DD4Off + 8,
		l.SecTableOff - 1, l.SecTableOff, l.HeadersEnd() - 1, l.HeadersEnd(), int(l.SizeOfHeaders) - 1, int(l.SizeOfHeaders), n - 1, n - 2, n - 8, n - 9}
	sum := int(l.SizeOfHeaders)
	for i, s := range l.Sections {
		c = append(c, l.SecTableOff+40*i+16, l.SecTableOff+40*i+20, l.SecTableOff+40*i+23, l.SecTableOff+40*i+39)
		if s.Size != 0 {
			c = append(c, int(s.Ptr)-1, int(s.Ptr), int(s.Ptr)+int(s.Size)/2, int(s.Ptr)+int(s.Size)-1, int(s.Ptr)+int(s.Size))
			sum += int(s.Size)
		}
	}
	c = append(c, sum-1, sum, sum+1)
	if l.CertSize != 0 {
		c = append(c, int(l.CertVA)-1, int(l.CertVA), int(l.CertVA)+1, int(l.CertVA)+int(l.CertSize)/2)
	}
	var out []int
	for _, p := range c {
		if p >= 0 && p < n {
			out = append(out, p)
		}
	}
	return out
}

func genCase(t *rapid.T) Case {
	o := gen.DefaultPE
	small := rapid.IntRange(0, 3).Draw(t, "small") == 0
	if small {
		o = gen.SmallPE
	}
	o.OddTable = true
	img := gen.PEImage(o).Draw(t, "img")
	c := Case{Img: img}
	l, err := pehash.Parse(img)
	if err != nil {
		t.Fatalf("generator produced an unparsable image: %v", err)
	}
	if hx.Thorough() && small && len(img) <= 2048 && rapid.IntRange(0, 7).Draw(t, "all") == 0 {
		c.All = true
		return c
	}
	in := interesting(l, len(img))
	n := rapid.IntRange(8, 24).Draw(t, "nflips")
	for i := 0; i < n; i++ {
		var p int
		if rapid.IntRange(0, 2).Draw(t, "uniform") == 0 {
			p = rapid.IntRange(0, len(img)-1).Draw(t, "pos")
		} else {
			p = rapid.SampledFrom(in).Draw(t, "ipos")
		}
		x := byte(rapid.IntRange(1, 255).Draw(t, "xor"))
		if rapid.Bool().Draw(t, "onebit") {
			x = 1 << uint(rapid.IntRange(0, 7).Draw(t, "bit"))
		}
		c.Flips = append(c.Flips, Flip{Pos: p, Xor: x})
	}
	return c
}


// scribblePadding uses the exported padding helper the way a caller building its own tables does - asks for padding
// and then writes into what it got - before the library is handed an image: what PaddingBytes returns belongs to the
// caller, so nothing the library computes afterwards may depend on it.
func scribblePadding(v int) {
	for _, n := range []int{v, v + 1, v + 3, v + 5, 1} {
		for _, bs := range []int{8, 512} {
			b, k := authenticode.PaddingBytes(n, bs)
			for i := range b {
				b[i] = 0xff - byte(i)
			}
			_ = k
		}
	}
}

// libHash returns the library digest, or nil with the reason.
func libHash(img []byte) ([]byte, error) {
	// the image is handed over behind one of several io.ReaderAt implementations (chosen by the image's bytes)
	variant := len(img)
	for _, b := range img[len(img)/2:][:min(16, len(img)-len(img)/2)] {
		variant += int(b)
	}
	scribblePadding(variant)
	r, kind := hx.ReaderAtFor(img, variant)
	hx.Class("reader/" + kind)
	p, err := authenticode.Parse(r)
	if err != nil {
		return nil, fmt.Errorf("Parse (%s): %v", kind, err)
	}
	d := p.Hash(crypto.SHA256)
	if d == nil {
		return nil, fmt.Errorf("Hash returned nil")
	}
	return d, nil
}

func checkFlip(img []byte, l *pehash.Layout, base *pehash.Result, f Flip) error {
	if f.Pos < 0 || f.Pos >= len(img) || f.Xor == 0 {
		return fmt.Errorf("bad case: flip %+v", f)
	}
	hx.Eval()
	region := l.Region(img, f.Pos)
	hx.Class("flip/" + region)
	mut := append([]byte{}, img...)
	mut[f.Pos] ^= f.Xor
	mutWellFormed := false
	if ml, err := pehash.Parse(mut); err == nil && ml.WellFormedInput(mut) == nil {
		mutWellFormed = true
	}
	var got []byte
	var lerr error
	func() {
		// The changed image may no longer be a well-formed one. What the library does with those (an error, or even
		// a crash) is the subject of C13, not of this property: a panic is passed on only for well-formed images.
		defer func() {
			if r := recover(); r != nil {
				if mutWellFormed {
					panic(r)
				}
				hx.Class("flip_made_the_image_malformed_and_the_library_panicked_(C13)")
				got, lerr = nil, fmt.Errorf("panic: %v", r)
			}
		}()
		got, lerr = libHash(mut)
	}()
	covered := base.Covered[f.Pos] > 0
	if covered && got != nil && bytes.Equal(got, base.Digest) {
		return fmt.Errorf("byte %d (%s) is covered by the specification hash, changing it (xor %#x) left the digest unchanged", f.Pos, region, f.Xor)
	}
	excluded := region == "checksum" || region == "certdir_address" || region == "certificate_table"
	if excluded && got != nil && !bytes.Equal(got, base.Digest) {
		return fmt.Errorf("byte %d (%s) is excluded from the hash, changing it (xor %#x) changed the digest", f.Pos, region, f.Xor)
	}
	// differential on the mutated image when it is still well-formed
	if ml, err := pehash.Parse(mut); err == nil && ml.WellFormedInput(mut) == nil {
		want, err := ml.Hash(mut)
		if err == nil {
			hx.Class("flip_still_wellformed")
			if got == nil {
				// the library's header reader (debug/pe) refuses fields the hash does not depend on
				// (machine type, symbol table pointer, ...): not judged here, the generated base images must all hash
				hx.Class("flip_still_wellformed_but_refused_by_library")
				_ = lerr
			} else if !bytes.Equal(got, want.Digest) {
				return fmt.Errorf("after changing byte %d (%s, xor %#x): library digest %x, specification digest %x", f.Pos, region, f.Xor, got, want.Digest)
			}
		}
	}
	return nil
}

func checkCase(c Case) error {
	img := []byte(c.Img)
	l, err := pehash.Parse(img)
	if err != nil {
		return fmt.Errorf("bad case: %v", err)
	}
	if err := l.WellFormedInput(img); err != nil {
		return fmt.Errorf("bad case: image not well-formed: %v", err)
	}
	want, err := l.Hash(img)
	if err != nil {
		return fmt.Errorf("bad case: reference hash: %v", err)
	}
	// classification
	nonEmpty, sorted, prev := 0, true, uint32(0)
	for _, s := range l.Sections {
		if s.Size != 0 {
			nonEmpty++
			if s.Ptr < prev {
				sorted = false
			}
			prev = s.Ptr
		}
	}
	lastEnd := uint64(l.SizeOfHeaders)
	for _, s := range l.Sections {
		if e := uint64(s.Ptr) + uint64(s.Size); s.Size != 0 && e > lastEnd {
			lastEnd = e
		}
	}
	contentEnd := uint64(len(img)) - uint64(l.CertSize)
	trailing := contentEnd > lastEnd
	unordered := nonEmpty >= 2 && !sorted
	if l.PE32 {
		hx.Class("img/pe32")
	} else {
		hx.Class("img/pe32plus")
	}
	if unordered {
		hx.Class("img/header_order_differs_from_file_order")
	}
	if trailing {
		hx.Class("img/trailing_data")
	}
	if len(img)%8 != 0 {
		hx.Class("img/length_not_multiple_of_8")
	}
	if l.CertSize != 0 {
		hx.Class("img/existing_certificate_table")
	}
	if !l.GapFree() {
		hx.Class("img/gaps")
	}
	if l.NumSections == 0 {
		hx.Class("img/no_sections")
	}
	for _, s := range l.Sections {
		if s.Size == 0 {
			hx.Class("img/has_zero_size_section")
			break
		}
	}
	if unordered || l.PE32 || trailing || len(img)%8 != 0 || l.CertSize != 0 {
		hx.NonTrivial(img)
		if hx.WantSample() && len(img) < 900 {
			hx.Sample(map[string]any{"image_hex": c.Img, "pe32": l.PE32, "sections": l.Sections, "size_of_headers": l.SizeOfHeaders, "cert_table": []uint32{l.CertVA, l.CertSize}, "flips": c.Flips})
		}
	}

	// (a) differential
	hx.Eval()
	got, lerr := libHash(img)
	oddTable := l.CertSize != 0 && (l.CertVA%8 != 0 || l.CertSize%8 != 0)
	if got == nil && oddTable {
		// An existing certificate table that is not 8-aligned is outside what the PE format allows; a library
		// that refuses such a file is not wrong. Only a digest it does return is judged.
		hx.Class("img/odd_certificate_table_refused_by_library")
		return nil
	}
	if got == nil {
		return fmt.Errorf("library gives no digest for a well-formed image: %v", lerr)
	}
	if !bytes.Equal(got, want.Digest) {
		return fmt.Errorf("digest mismatch: library %x, specification %x (PE32=%v, %d sections, SizeOfHeaders %d, file %d bytes, table %d)", got, want.Digest, l.PE32, l.NumSections, l.SizeOfHeaders, len(img), l.CertSize)
	}
	// the digest is a function of the image and the requested algorithm only: other algorithms, in any order, on the same object
	if p, err := authenticode.Parse(bytes.NewReader(img)); err == nil {
		algs := []crypto.Hash{crypto.SHA256, crypto.SHA1, crypto.SHA384, crypto.SHA512, crypto.SHA256}
		start := int(want.Digest[0]) % len(algs)
		for k := 0; k < len(algs); k++ {
			a := algs[(start+k)%len(algs)]
			wr, err := l.HashWith(img, a.New())
			if err != nil {
				return fmt.Errorf("bad case: reference hash: %v", err)
			}
			hx.Eval()
			if got := p.Hash(a); !bytes.Equal(got, wr.Digest) {
				return fmt.Errorf("Hash(%v) as call %d on one parsed object returns %x, specification digest %x", a, k+1, got, wr.Digest)
			}
		}
	}
	// reference sanity on gap-free images: covered == all bytes - {checksum, directory entry, table}
	if l.GapFree() {
		for p := range img {
			ex := (p >= l.CksumOff && p < l.CksumOff+4) || (p >= l.DD4Off && p < l.DD4Off+8) || (l.CertSize != 0 && uint64(p) >= uint64(l.CertVA))
			if (want.Covered[p] == 1) == ex || want.Covered[p] > 1 {
				return fmt.Errorf("harness: reference covers byte %d %d times (excluded=%v) on a gap-free image", p, want.Covered[p], ex)
			}
		}
	}
	// an object parsed before all the other images below must still report the same digest afterwards
	kept, kerr := authenticode.Parse(bytes.NewReader(img))
	if kerr != nil {
		return fmt.Errorf("Parse rejects a well-formed image: %v", kerr)
	}
	keptBytes := kept.Bytes()
	// (b) metamorphic
	if c.All {
		hx.Class("img/every_position_flipped")
		for p := range img {
			if err := checkFlip(img, l, want, Flip{Pos: p, Xor: 0xff}); err != nil {
				return err
			}
		}
	}
	for _, f := range c.Flips {
		if err := checkFlip(img, l, want, f); err != nil {
			return err
		}
	}
	hx.Eval()
	if d := kept.Hash(crypto.SHA256); !bytes.Equal(d, want.Digest) {
		return fmt.Errorf("an image object parsed before %d other images were parsed now reports digest %x, before %x (state shared between objects)", len(c.Flips), d, want.Digest)
	}
	padded := append([]byte{}, img...)
	for len(padded)%8 != 0 {
		padded = append(padded, 0)
	}
	if l.CertSize != 0 && (l.CertVA%8 != 0 || l.CertSize%8 != 0) {
		// an existing table that is not aligned: how the library lays such an image out again is not this property's
		// subject; the object must still serialise as it did right after Parse
		padded = keptBytes
	}
	if !bytes.Equal(kept.Bytes(), padded) {
		return fmt.Errorf("an image object parsed before other images were parsed no longer serialises to its own bytes (zero-padded to 8)")
	}
	return nil
}

var checker = hx.Checker[Case]{Property: "C01", Gen: genCase, Check: checkCase, ManualEval: true}

func TestC01(t *testing.T)       { checker.Rapid(t) }
func TestC01Replay(t *testing.T) { checker.Replay(t) }

// Authenticode digests pinned in authenticode/checksum_test.go (TestSignVerify, "paddedchecksum")
var pinned = map[string]string{
	"tests/data/binary/test.pecoff":           "e7d74d2bc1287c17bf056e259ad7d2ca557e848b252509ae9956df0b14f69702",
	"tests/data/binary/HelloWorld.efi":        "765600a03f44d9f954376dd5f4e5b5e86b2ca1a3d6308a005f95922b0ebe7c94",
	"tests/data/binary/HelloWorld.efi.signed": "765600a03f44d9f954376dd5f4e5b5e86b2ca1a3d6308a005f95922b0ebe7c94",
	"tests/data/binary/linuxx64.efi.stub":     "cc09c6b98fc5bf619ce09388399c35c21a510855f5fd308de653a8cf868e01cc",
}

// TestC01Pinned validates the reference against digests that do not come from
// the library: the digest sbsign embedded in test.pecoff.signed (and in
// HelloWorld.efi.signed) must equal the reference digest of that file.
func TestC01Pinned(t *testing.T) {
	n := 0
	for _, f := range []string{"authenticode/testdata/test.pecoff.signed", "tests/data/binary/HelloWorld.efi.signed"} {
		b, ok := hx.RepoFile(f)
		if !ok {
			continue
		}
		l, err := pehash.Parse(b)
		if err != nil {
			t.Fatalf("ORACLE-SELFCHECK-FAIL reference cannot parse %s: %v", f, err)
		}
		r, err := l.Hash(b)
		if err != nil {
			t.Fatalf("ORACLE-SELFCHECK-FAIL reference cannot hash %s: %v", f, err)
		}
		if l.CertSize == 0 {
			t.Fatalf("ORACLE-SELFCHECK-FAIL %s has no certificate table", f)
		}
		table := b[l.CertVA:]
		if !bytes.Contains(table, r.Digest) {
			t.Fatalf("ORACLE-SELFCHECK-FAIL reference digest %x of %s is not the digest embedded by sbsign", r.Digest, f)
		}
		n++
	}
	// digests pinned by the repository's own test-suite
	m := 0
	for file, want := range pinned {
		b, ok := hx.RepoFile(file)
		if !ok {
			continue
		}
		r, err := pehash.Hash(b)
		if err != nil || hex.EncodeToString(r.Digest) != want {
			t.Fatalf("ORACLE-SELFCHECK-FAIL reference digest of %s differs from the digest pinned in the repository tests: %v", file, err)
		}
		m++
	}
	fmt.Printf("ORACLE-SELFCHECK-OK reference PE hash equals the digest embedded by sbsign in %d signed fixtures and %d digests pinned in the repository tests\n", n, m)
}
