// C06 — signed variable updates have the exact AUTHENTICATION_2 layout and binding.
package c06

import (
	"bytes"
	"crypto"
	"crypto/sha256"
	"crypto/x509"
	"encoding/binary"
	"fmt"
	"io"
	"os"
	"strings"
	"testing"
	"time"
	_ "time/tzdata"

	"github.com/spf13/afero"
	mozilla "go.mozilla.org/pkcs7"
	"pgregory.net/rapid"

	"github.com/foxboron/go-uefi/efi/attributes"
	"github.com/foxboron/go-uefi/efi/signature"
	"github.com/foxboron/go-uefi/efivar"
	"github.com/foxboron/go-uefi/efivarfs"

	"verifharness/adapt"
	"verifharness/gen"
	"verifharness/hx"
	"verifharness/ossl"
	"verifharness/recfs"
	"verifharness/ref/authvar"
	"verifharness/ref/cms"
	"verifharness/ref/der"
	"verifharness/ref/esl"
	"verifharness/ref/guid"
)

type Case struct {
	Name     string
	GUID     hx.Hex // 16 bytes, big-endian fields
	Attrs    uint32
	Payload  hx.Hex
	Key      int
	Cert     hx.Hex
	TZMin    int    // offset of the process time zone from UTC in minutes
	Validity int    // 0: the signing certificate is valid now; 1: expired; 2: not yet valid
	Zone     string // when set: the process time zone is this named zone (one with daylight saving rules) instead of a fixed offset
	OpenSSL  bool   // also ask the openssl CLI
	Slow     bool   // the signer answers only after the wall clock has moved on to the next second (HSM / smartcard)
	Failed   bool   // an update whose signer fails is attempted first (unplugged token), then the real one
	Env      string // "NAME=value" set in the process environment while the update is made (what build systems and shells export); none of it is an input of a signed update
}

// what packaging tools, reproducible-build set-ups and shells have in the environment
var envSettings = []string{"SOURCE_DATE_EPOCH=1136214245", "SOURCE_DATE_EPOCH=0", "TZ=America/New_York", "TZ=:/nonexistent", "LC_ALL=tr_TR.UTF-8", "FAKETIME=2006-01-02 15:04:05"}

type brokenSigner struct{ crypto.Signer }

func (brokenSigner) Sign(io.Reader, []byte, crypto.SignerOpts) ([]byte, error) {
	return nil, fmt.Errorf("c06: token unplugged")
}

// slowSigner delays its answer past the next second boundary.
type slowSigner struct{ crypto.Signer }

func (s slowSigner) Sign(r io.Reader, d []byte, o crypto.SignerOpts) ([]byte, error) {
	now := time.Now()
	time.Sleep(now.Truncate(time.Second).Add(time.Second + 15*time.Millisecond).Sub(now))
	return s.Signer.Sign(r, d, o)
}

// raw is a Marshallable over plain bytes.
type raw []byte

func (r raw) Marshal(b *bytes.Buffer) { b.Write(r) }
func (r raw) Bytes() []byte           { return r }

var dstZones = []string{"Europe/Berlin", "America/New_York", "Pacific/Auckland", "America/Santiago", "Australia/Sydney", "Europe/London"}

var predefined = []efivar.Efivar{efivar.PK, efivar.KEK, efivar.Db, efivar.Dbx, efivar.SecureBoot, efivar.SetupMode, efivar.BootOrder, efivar.LoaderEntrySelected, efivar.PKDefault, efivar.DbxDefault}

func genCase(t *rapid.T) Case {
	var c Case
	switch kind := rapid.IntRange(0, 4).Draw(t, "varkind"); {
	case kind == 0:
		// a name the library knows under a GUID it does not expect there (another vendor's "db", "dbx" under the
		// global GUID, ...), or an unknown name under a well-known GUID: name and GUID are independent inputs
		known := []string{"PK", "KEK", "db", "dbx", "dbt", "dbr", "SecureBoot", "BootOrder", "Boot0001", "MokList"}
		c.Name = rapid.SampledFrom(known).Draw(t, "knownname")
		if rapid.Bool().Draw(t, "guid_of_another_variable") {
			c.GUID = adapt.Ref(*rapid.SampledFrom(predefined).Draw(t, "guidof").GUID).BE()
		} else {
			c.GUID = gen.GUID().Draw(t, "guid").BE()
		}
		if rapid.Bool().Draw(t, "unknown_name") {
			c.Name = rapid.StringMatching(`[A-Za-z0-9_\-\. #]{1,40}`).Draw(t, "name")
			c.GUID = adapt.Ref(*rapid.SampledFrom(predefined).Draw(t, "guidof2").GUID).BE()
		}
		c.Attrs = uint32(rapid.SampledFrom(predefined).Draw(t, "attrsof").Attributes)
	case kind <= 2:
		v := rapid.SampledFrom(predefined).Draw(t, "var")
		c.Name, c.GUID, c.Attrs = v.Name, adapt.Ref(*v.GUID).BE(), uint32(v.Attributes)
		if rapid.IntRange(0, 2).Draw(t, "append") == 0 {
			c.Attrs |= uint32(attributes.EFI_VARIABLE_APPEND_WRITE)
		}
	default:
		c.Name = rapid.StringMatching(`[A-Za-z0-9_\-\. #]{1,40}`).Draw(t, "name")
		c.GUID = gen.GUID().Draw(t, "guid").BE()
		c.Attrs = rapid.Uint32Range(0, 0xff).Draw(t, "attrs")
		if rapid.IntRange(0, 7).Draw(t, "wildattrs") == 0 {
			c.Attrs = rapid.Uint32().Draw(t, "attrs32")
		}
	}
	switch rapid.IntRange(0, 4).Draw(t, "payload") {
	case 0:
		c.Payload = nil // empty database
	case 1, 2:
		c.Payload = esl.Encode(gen.ESLStream(3).Draw(t, "db"))
	default:
		c.Payload = gen.SizedBytes(600, 1, 16, 55, 56, 64).Draw(t, "raw")
	}
	if rapid.IntRange(0, 7).Draw(t, "payload_is_itself_a_signed_update") == 0 {
		// a payload that begins with an authentication descriptor of its own (an update that is signed again, a .auth
		// file handed over as it is): payload bytes like any other
		var ts [16]byte
		copy(ts[:], authvar.Time{Year: 2006, Month: 1, Day: 2, Hour: 15, Minute: 4, Second: 5}.Encode())
		inner := rapid.SampledFrom([][]byte{{0x30, 0x03, 0x02, 0x01, 0x01}, {}, {0x30, 0x82, 0x01, 0x00}}).Draw(t, "inner_signature")
		c.Payload = append(authvar.EncodeAuth2(ts, authvar.Revision2, authvar.TypeEFIGUID, authvar.PKCS7GUID, inner), c.Payload...)
	}
	if rapid.IntRange(0, 7).Draw(t, "environment") == 0 {
		c.Env = rapid.SampledFrom(envSettings).Draw(t, "setting")
	}
	var id gen.Identity
	if rapid.IntRange(0, 3).Draw(t, "genid") == 0 {
		id = gen.Ident(true).Draw(t, "id")
	} else {
		id = rapid.SampledFrom(gen.FixedIdents()).Draw(t, "fid")
		if !hx.Thorough() && id.Key >= 4 && rapid.Bool().Draw(t, "smallkey") {
			id = gen.FixedIdents()[id.Key%4]
		}
	}
	if id.Key >= 0 && rapid.IntRange(0, 4).Draw(t, "validity") == 0 {
		// Secure Boot keys are routinely used past their certificate's end date (and prepared before its start)
		c.Validity = rapid.IntRange(1, 2).Draw(t, "validitykind")
		if vid, err := gen.WithValidity(id, c.Validity); err == nil {
			id = vid
		} else {
			c.Validity = 0
		}
	}
	if id.Key >= 0 && c.Validity == 0 && gen.Chance(t, "bigcert", 1, 12) {
		// a signing certificate large enough that the SignedData containing it passes 64 KiB (three-octet DER lengths)
		if bid, err := gen.WithBigExtension(id, rapid.SampledFrom([]int{65000, 65536, 70000, 140000}).Draw(t, "bigext")); err == nil {
			id = bid
		}
	}
	c.Key, c.Cert = id.Key, id.Cert.Raw
	if rapid.IntRange(0, 3).Draw(t, "utc") != 0 {
		c.TZMin = 15 * rapid.IntRange(-48, 56).Draw(t, "tzquarters")
		if rapid.IntRange(0, 2).Draw(t, "namedzone") == 0 {
			// zones with daylight saving rules, on both hemispheres: at any date some of them are in summer time
			c.Zone = rapid.SampledFrom(dstZones).Draw(t, "zone")
		}
	}
	c.Slow = gen.Chance(t, "slowsigner", 1, 60)
	c.Failed = rapid.IntRange(0, 5).Draw(t, "failedfirst") == 0
	c.OpenSSL = rapid.IntRange(0, 19).Draw(t, "openssl") == 0 || hx.Thorough() && rapid.IntRange(0, 4).Draw(t, "openssl2") == 0
	return c
}

func utf16le(name string) []byte {
	var b []byte
	for _, ch := range []byte(name) {
		b = append(b, ch, 0)
	}
	return b
}

func wrap(bare []byte) []byte {
	n, err := der.ParseOne(bare, der.Options{})
	if err != nil {
		return nil
	}
	return der.Seq(der.OID(cms.OIDSignedData...), der.CtxC(0, n)).Encode()
}

// validityOutside is set while a case runs whose signing certificate is expired or not yet valid:
// go.mozilla.org/pkcs7 refuses those as a matter of policy (signing time outside the validity period), so the verdict
// then comes from the reference verifier alone.
var validityOutside bool

func mozillaDetached(bare, content []byte) error {
	if validityOutside {
		sd, err := cms.Parse(wrap(bare))
		if err != nil {
			return fmt.Errorf("reference parse: %v", err)
		}
		want := sha256.Sum256(content)
		for _, sg := range sd.Signers {
			for _, c := range sd.CertList() {
				if !sg.Names(c) {
					continue
				}
				if v := sd.Accepts(c); !v.OK {
					return fmt.Errorf("reference verifier: %s", v.Reason)
				}
				for _, md := range sg.AttrValues(cms.OIDMessageDigest) {
					if bytes.Equal(md.RawValue(), want[:]) {
						return nil
					}
				}
				return fmt.Errorf("reference verifier: signed message digest is not SHA-256 of the buffer")
			}
		}
		return fmt.Errorf("reference verifier: no signer with an embedded certificate")
	}
	p, err := mozilla.Parse(wrap(bare))
	if err != nil {
		return fmt.Errorf("parse: %v", err)
	}
	p.Content = content
	return p.Verify()
}

func checkCase(c Case) error {
	if len(c.GUID) != 16 {
		return fmt.Errorf("bad case: GUID")
	}
	validityOutside = c.Validity != 0
	defer func() { validityOutside = false }()
	if c.Validity != 0 {
		hx.Class("signing_certificate_expired_or_not_yet_valid")
	}
	if len(c.Cert) >= 60000 {
		hx.Class("signing_certificate_of_64KiB_or_more")
	}
	id, err := gen.ParseIdent(c.Key, c.Cert)
	if err != nil {
		return fmt.Errorf("bad case: %v", err)
	}
	g := guid.FromBE(c.GUID)
	lg := adapt.Lib(g)
	v := efivar.Efivar{Name: c.Name, GUID: &lg, Attributes: attributes.Attributes(c.Attrs)}
	payload := []byte(c.Payload)

	// --- classification
	if c.TZMin != 0 {
		hx.Class("tz_non_utc")
	}
	if c.Attrs&uint32(attributes.EFI_VARIABLE_APPEND_WRITE) != 0 {
		hx.Class("append_write")
	}
	if len(payload) == 0 {
		hx.Class("payload_empty")
	}
	if c.TZMin != 0 || c.Attrs&uint32(attributes.EFI_VARIABLE_APPEND_WRITE) != 0 || len(payload) > 0 {
		hx.NonTrivial([]byte(c.Name), c.GUID, payload, c.Cert, []byte(fmt.Sprint(c.Attrs, c.TZMin)))
		if hx.WantSample() && len(payload) < 200 {
			hx.Sample(map[string]any{"name": c.Name, "guid": g.Text(), "attributes": c.Attrs, "payload_hex": c.Payload, "tz_offset_minutes": c.TZMin, "key_bits": id.Priv().N.BitLen()})
		}
	}

	// --- run under the configured process time zone
	saved := time.Local
	time.Local = time.FixedZone("verif", c.TZMin*60)
	if c.Zone != "" {
		loc, lerr := time.LoadLocation(c.Zone) // from the time/tzdata package compiled into the test binary
		if lerr != nil {
			return fmt.Errorf("bad case: zone %q: %v", c.Zone, lerr)
		}
		time.Local = loc
		if time.Now().In(loc).IsDST() {
			hx.Class("process_time_zone_in_daylight_saving_time")
		} else {
			hx.Class("process_time_zone_with_dst_rules_in_standard_time")
		}
	}
	if k, val, ok := strings.Cut(c.Env, "="); ok {
		old, had := os.LookupEnv(k)
		os.Setenv(k, val)
		defer func() {
			if had {
				os.Setenv(k, old)
			} else {
				os.Unsetenv(k)
			}
		}()
		hx.Class("environment/" + k)
	}
	t0 := time.Now().UTC().Truncate(time.Second)
	var m efivar.Marshallable = raw(payload)
	if dec, err := esl.Decode(payload); err == nil && len(payload) > 0 && len(dec) > 0 {
		// hand real databases over as a SignatureDatabase
		if db, err := signature.ReadSignatureDatabase(bytes.NewReader(payload)); err == nil && bytes.Equal(db.Bytes(), payload) {
			m = &db
		}
	}
	if c.Failed {
		if _, _, err := signature.SignEFIVariable(v, raw(append([]byte("stale payload of a failed attempt "), payload...)), brokenSigner{id.Priv()}, id.Cert); err == nil {
			time.Local = saved
			return fmt.Errorf("SignEFIVariable reports success although the signer failed")
		}
		hx.Class("failed_attempt_before_the_update")
	}
	var signer crypto.Signer = id.Priv()
	if c.Slow {
		signer = slowSigner{signer}
		hx.Class("slow_signer_crossing_a_second_boundary")
	}
	auth, out, err := signature.SignEFIVariable(v, m, signer, id.Cert)
	t1 := time.Now().UTC()
	time.Local = saved
	if err != nil {
		return fmt.Errorf("SignEFIVariable: %v", err)
	}
	// the returned value can be serialised as often as the caller likes (write it to a .auth file, then to the variable)
	{
		first := append([]byte{}, out.Bytes()...)
		var m1, m2 bytes.Buffer
		out.Marshal(&m1)
		out.Marshal(&m2)
		if !bytes.Equal(m1.Bytes(), first) || !bytes.Equal(m2.Bytes(), first) || !bytes.Equal(out.Bytes(), first) {
			return fmt.Errorf("the signed update serialises differently when asked again: Bytes %d bytes, Marshal %d, Marshal again %d, Bytes again %d", len(first), m1.Len(), m2.Len(), len(out.Bytes()))
		}
	}
	// the returned value is the update that was signed: preparing the next update on the caller's database
	// object must not change it
	if db, ok := m.(*signature.SignatureDatabase); ok {
		db.Append(signature.CERT_SHA256_GUID, adapt.Lib(gen.Owners[2]), bytes.Repeat([]byte{0xee}, 32))
		hx.Class("payload_object_modified_after_signing")
	}
	got := out.Bytes()
	mb := bytes.NewBufferString("already-there")
	out.Marshal(mb)
	if !bytes.Equal(mb.Bytes(), append([]byte("already-there"), got...)) {
		return fmt.Errorf("Marshal (into a buffer that already holds bytes) and Bytes of the returned value differ")
	}

	// --- independent decoding of the byte string
	d, n, err := authvar.DecodeAuth2(got)
	if err != nil {
		return fmt.Errorf("output is not an EFI_VARIABLE_AUTHENTICATION_2 descriptor: %v", err)
	}
	ts := authvar.DecodeTime(d.Time[:])
	if ts.Pad1 != 0 || ts.Nanosecond != 0 || ts.TimeZone != 0 || ts.Daylight != 0 || ts.Pad2 != 0 {
		return fmt.Errorf("timestamp pad/nanosecond/timezone/daylight fields are not zero: %+v", ts)
	}
	if ts.Month < 1 || ts.Month > 12 || ts.Day < 1 || ts.Day > 31 || ts.Hour > 23 || ts.Minute > 59 || ts.Second > 59 {
		return fmt.Errorf("timestamp out of range: %+v", ts)
	}
	tt := time.Date(int(ts.Year), time.Month(ts.Month), int(ts.Day), int(ts.Hour), int(ts.Minute), int(ts.Second), 0, time.UTC)
	if tt.Before(t0) || tt.After(t1) {
		return fmt.Errorf("timestamp %s read as UTC is outside the call window [%s, %s] (process time zone UTC%+dmin)", tt.Format(time.RFC3339), t0.Format(time.RFC3339), t1.Format(time.RFC3339), c.TZMin)
	}
	if d.Revision != authvar.Revision2 || d.Type != authvar.TypeEFIGUID {
		return fmt.Errorf("WIN_CERTIFICATE revision %#x type %#x, want 0x0200 / 0x0EF1", d.Revision, d.Type)
	}
	if d.CertType != authvar.PKCS7GUID {
		return fmt.Errorf("certificate type GUID %s is not EFI_CERT_TYPE_PKCS7_GUID", d.CertType.Text())
	}
	if int(d.Length) != 24+len(d.CertData) {
		return fmt.Errorf("dwLength %d != 24 + %d", d.Length, len(d.CertData))
	}
	if !bytes.Equal(got[n:], payload) {
		return fmt.Errorf("bytes after the descriptor (%d) are not the payload (%d bytes)", len(got)-n, len(payload))
	}
	// --- the signature: bare DER SignedData, detached, SHA-256, by the given key, over exactly the defined buffer
	root, err := der.ParseOne(d.CertData, der.Options{Strict: true})
	if err != nil {
		return fmt.Errorf("signature is not exactly one strict-DER element (dwLength must equal 24 + signature length): %v", err)
	}
	sd, err := cms.Locate(root)
	if err != nil {
		return fmt.Errorf("signature is not a SignedData: %v", err)
	}
	if sd.HasOuter {
		return fmt.Errorf("signature is wrapped in a ContentInfo, firmware expects a bare SignedData")
	}
	if _, has := sd.EContentOctets(); has {
		return fmt.Errorf("signature encapsulates content, it must be detached")
	}
	var buf []byte
	buf = append(buf, utf16le(c.Name)...)
	buf = append(buf, g.Wire()...)
	buf = binary.LittleEndian.AppendUint32(buf, c.Attrs)
	buf = append(buf, d.Time[:]...)
	buf = append(buf, payload...)
	if vd := sd.Accepts(id.Cert); !vd.OK {
		return fmt.Errorf("reference verifier rejects the signature for the given certificate: %s", vd.Reason)
	}
	want := sha256.Sum256(buf)
	mds := sd.Signers[0].AttrValues(cms.OIDMessageDigest)
	if len(sd.Signers) != 1 || len(mds) != 1 || !bytes.Equal(mds[0].RawValue(), want[:]) {
		return fmt.Errorf("signed message digest is not SHA-256 of name(UTF-16LE, unterminated) || GUID || attributes || timestamp || payload")
	}
	if len(sd.DigestAlgs.Children) != 1 || len(sd.DigestAlgs.Children[0].Children) < 1 || !der.EqualOID(sd.DigestAlgs.Children[0].Children[0], cms.OIDSHA256...) {
		return fmt.Errorf("digest algorithm is not SHA-256")
	}
	if err := mozillaDetached(d.CertData, buf); err != nil {
		return fmt.Errorf("go.mozilla.org/pkcs7 rejects the signature over the defined buffer: %v", err)
	}
	// ... and over nothing else
	perturb := map[string][]byte{
		"terminated_name":   append(append(append(append(append(utf16le(c.Name), 0, 0), g.Wire()...), binary.LittleEndian.AppendUint32(nil, c.Attrs)...), d.Time[:]...), payload...),
		"guid_big_endian":   append(append(append(append(utf16le(c.Name), g.BE()...), binary.LittleEndian.AppendUint32(nil, c.Attrs)...), d.Time[:]...), payload...),
		"no_attributes":     append(append(append(utf16le(c.Name), g.Wire()...), d.Time[:]...), payload...),
		"zero_time":         append(append(append(append(utf16le(c.Name), g.Wire()...), binary.LittleEndian.AppendUint32(nil, c.Attrs)...), make([]byte, 16)...), payload...),
		"payload_plus_1":    append(append([]byte{}, buf...), 0),
		"attrs_before_guid": append(append(append(append(utf16le(c.Name), binary.LittleEndian.AppendUint32(nil, c.Attrs)...), g.Wire()...), d.Time[:]...), payload...),
	}
	for name, pb := range perturb {
		if bytes.Equal(pb, buf) {
			continue // e.g. GUID whose wire and big-endian forms coincide
		}
		if err := mozillaDetached(d.CertData, pb); err == nil {
			return fmt.Errorf("signature also verifies over a different buffer (%s)", name)
		}
	}
	if c.OpenSSL && ossl.Available() {
		ok, _, se := ossl.SmimeVerify(wrap(d.CertData), buf, true)
		if !ok {
			return fmt.Errorf("openssl smime -verify rejects the signature over the defined buffer: %s", se)
		}
		if ok, _, _ := ossl.SmimeVerify(wrap(d.CertData), perturb["payload_plus_1"], true); ok {
			return fmt.Errorf("openssl smime -verify accepts the signature over a different buffer")
		}
		hx.Class("openssl_accepts")
	}
	// --- the returned struct agrees with the bytes
	var ab bytes.Buffer
	auth.Marshal(&ab)
	if !bytes.Equal(ab.Bytes(), got[:n]) {
		return fmt.Errorf("returned EFIVariableAuthentication2 does not encode to the descriptor bytes")
	}
	if ok, err := auth.Verify(id.Cert); !ok || err != nil {
		return fmt.Errorf("returned descriptor does not verify against the signing certificate: %v %v", ok, err)
	}
	// --- the same update through the variable store API (WriteSignedUpdate), onto a variable that already holds
	// these very entries: what is signed and written is the payload that was given, not a function of what is there
	if dbp, isDB := m.(*signature.SignatureDatabase); isDB && len(payload) > 0 {
		payload := append([]byte{}, dbp.Bytes()...) // (the database as it is now: an entry was added to it above)
		mem := afero.NewMemMapFs()
		vpath := attributes.Efivars + "/" + c.Name + "-" + g.Text()
		afero.WriteFile(mem, vpath, append(binary.LittleEndian.AppendUint32(nil, c.Attrs&^uint32(attributes.EFI_VARIABLE_APPEND_WRITE)), payload...), 0644)
		rec := recfs.New(mem, "MemMapFS")
		store := efivarfs.NewFS()
		store.SetFS(rec)
		if err := store.Open().WriteSignedUpdate(v, dbp, id.Priv(), id.Cert); err != nil {
			return fmt.Errorf("WriteSignedUpdate fails on a working file system: %v", err)
		}
		var written []byte
		for _, e := range rec.Events() {
			if e.Op == "File.Write" && e.Path == vpath {
				written = append(written, e.Data...)
			}
		}
		if len(written) < 4 || binary.LittleEndian.Uint32(written) != c.Attrs {
			return fmt.Errorf("WriteSignedUpdate wrote %d bytes that do not start with the attribute mask %#x", len(written), c.Attrs)
		}
		d2, n2, err := authvar.DecodeAuth2(written[4:])
		if err != nil {
			return fmt.Errorf("WriteSignedUpdate did not write a descriptor behind the attributes: %v", err)
		}
		if !bytes.Equal(written[4+n2:], payload) {
			return fmt.Errorf("WriteSignedUpdate onto a variable that already holds the entries wrote a %d-byte payload, the update given has %d bytes", len(written)-4-n2, len(payload))
		}
		buf2 := append(append(append(append(utf16le(c.Name), g.Wire()...), binary.LittleEndian.AppendUint32(nil, c.Attrs)...), d2.Time[:]...), payload...)
		if err := mozillaDetached(d2.CertData, buf2); err != nil {
			return fmt.Errorf("the update written by WriteSignedUpdate is not signed over name || GUID || attributes || its timestamp || the payload given: %v", err)
		}
		hx.Class("route/WriteSignedUpdate_onto_existing_entries")
	}
	return nil
}

var checker = hx.Checker[Case]{Property: "C06", Gen: genCase, Check: checkCase}

func TestC06(t *testing.T) {
	defer ossl.Cleanup()
	hx.SetExtra("openssl_available", ossl.Available())
	checker.Rapid(t)
}
func TestC06Replay(t *testing.T) { defer ossl.Cleanup(); checker.Replay(t) }

// TestC06Pinned: the independent decoder + verifier must accept the sbvarsign
// fixtures (db.auth was made for variable "db" with the image security GUID and
// attributes 0x27), which ties the reference buffer layout to a third-party producer.
func TestC06Pinned(t *testing.T) {
	type fx struct {
		file, name string
		g          guid.G
		attrs      uint32
	}
	global := guid.G{D1: 0x8be4df61, D2: 0x93ca, D3: 0x11d2, D4: [8]byte{0xaa, 0x0d, 0x00, 0xe0, 0x98, 0x03, 0x2b, 0x8c}}
	secdb := guid.G{D1: 0xd719b2cb, D2: 0x3d3a, D3: 0x4596, D4: [8]byte{0xa3, 0xbc, 0xda, 0xd0, 0x0e, 0x67, 0x65, 0x6f}}
	n := 0
	for _, f := range []fx{{"tests/data/signatures/varsign/PK.auth", "PK", global, 0x27}, {"tests/data/signatures/varsign/KEK.auth", "KEK", global, 0x27}, {"tests/data/signatures/varsign/db.auth", "db", secdb, 0x27}} {
		b, ok := hx.RepoFile(f.file)
		if !ok {
			continue
		}
		d, used, err := authvar.DecodeAuth2(b)
		if err != nil {
			t.Fatalf("ORACLE-SELFCHECK-FAIL %s: %v", f.file, err)
		}
		sd, err := cms.Parse(d.CertData)
		if err != nil {
			t.Fatalf("ORACLE-SELFCHECK-FAIL %s: %v", f.file, err)
		}
		if len(sd.Signers) == 0 || sd.Signers[0].Attrs == nil {
			continue // signed without attributes (KEK.auth): no messageDigest to compare with
		}
		if sd.Certs == nil || len(sd.Certs.Children) == 0 {
			continue
		}
		cert, err := x509.ParseCertificate(sd.Certs.Children[0].RawBytes())
		if err != nil {
			continue
		}
		if v := sd.Accepts(cert); !v.OK {
			t.Fatalf("ORACLE-SELFCHECK-FAIL reference verifier rejects sbvarsign fixture %s: %s", f.file, v.Reason)
		}
		md := sd.Signers[0].AttrValues(cms.OIDMessageDigest)
		okAny := false
		for _, attrs := range []uint32{f.attrs, f.attrs | 0x40} {
			var buf []byte
			buf = append(buf, utf16le(f.name)...)
			buf = append(buf, f.g.Wire()...)
			buf = binary.LittleEndian.AppendUint32(buf, attrs)
			buf = append(buf, d.Time[:]...)
			buf = append(buf, b[used:]...)
			h := sha256.Sum256(buf)
			if len(md) == 1 && bytes.Equal(md[0].RawValue(), h[:]) {
				okAny = true
			}
		}
		if !okAny {
			t.Fatalf("ORACLE-SELFCHECK-FAIL the reference buffer layout is not what sbvarsign signed in %s", f.file)
		}
		n++
	}
	fmt.Printf("ORACLE-SELFCHECK-OK reference buffer layout (name || GUID || attributes || time || payload) is what sbvarsign signed (signature valid, messageDigest equal) in %d fixtures\n", n)
}
