// C10 — auth descriptor and WIN_CERTIFICATE decode by declared length and round-trip.
package c10

import (
	"bytes"
	"fmt"
	"io"
	"testing"

	"pgregory.net/rapid"

	"github.com/foxboron/go-uefi/efi/signature"
	"github.com/foxboron/go-uefi/efi/util"

	"verifharness/adapt"
	"verifharness/gen"
	"verifharness/hx"
	"verifharness/ref/authvar"
	"verifharness/ref/esl"
	"verifharness/ref/guid"
)

type Case struct {
	Time     hx.Hex // 16 bytes
	CertType hx.Hex // 16 bytes (big-endian fields)
	CertData hx.Hex
	Payload  hx.Hex
	WinType  uint16 // type of the plain WIN_CERTIFICATE variant
	Chunk    int    // the reader hands out at most Chunk bytes per Read (0 = unlimited)
}

// EFI_CERT_TYPE_RSA2048_SHA256_GUID, EFI_CERT_RSA2048_GUID, EFI_CERT_X509_GUID, EFI_CERT_SHA256_GUID, EFI_CERT_TYPE_PKCS7_GUID, all-zero
var knownCertTypes = []guid.G{
	{D1: 0xa7717414, D2: 0xc616, D3: 0x4977, D4: [8]byte{0x94, 0x20, 0x84, 0x47, 0x12, 0xa7, 0x35, 0xbf}},
	{D1: 0x3c5766e8, D2: 0x269c, D3: 0x4e34, D4: [8]byte{0xaa, 0x14, 0xed, 0x77, 0x6e, 0x85, 0xb3, 0xb6}},
	{D1: 0xa5c059a1, D2: 0x94e4, D3: 0x4aa7, D4: [8]byte{0x87, 0xb5, 0xab, 0x15, 0x5c, 0x2b, 0xf0, 0x72}},
	{D1: 0xc1c41626, D2: 0x504c, D3: 0x4092, D4: [8]byte{0xac, 0xa9, 0x41, 0xf9, 0x36, 0x93, 0x43, 0x28}},
	{D1: 0x4aafd29d, D2: 0x68df, D3: 0x49ee, D4: [8]byte{0x8a, 0xa9, 0x34, 0x7d, 0x37, 0x56, 0x65, 0xa7}},
	{},
}

func genCase(t *rapid.T) Case {
	var ct guid.G
	switch rapid.IntRange(0, 3).Draw(t, "certtypekind") {
	case 0, 1:
		ct = authvar.PKCS7GUID
	case 2:
		// the other certificate types the specification defines: structurally the same descriptor, a body of any
		// length (the decoder does not interpret it)
		ct = rapid.SampledFrom(knownCertTypes).Draw(t, "knowncerttype")
	default:
		ct = gen.GUID().Draw(t, "certtype")
	}
	max := 4096
	if rapid.IntRange(0, 19).Draw(t, "big") == 0 {
		max = 65535
	}
	return Case{
		Time:     rapid.SliceOfN(rapid.Byte(), 16, 16).Draw(t, "time"),
		CertType: ct.BE(),
		CertData: gen.SizedBytes(max, 0, 1, 15, 16, 17, 255, 256, 1500, 65535).Draw(t, "certdata"),
		Payload:  gen.SizedBytes(300, 0, 1, 28, 76).Draw(t, "payload"),
		WinType:  rapid.SampledFrom([]uint16{authvar.TypePKCS, authvar.TypeEFIPKCS1_15, authvar.TypeEFIGUID, 0, 0xffff, 0x1234}).Draw(t, "wintype"),
		Chunk:    rapid.SampledFrom([]int{0, 0, 1, 3, 7, 512}).Draw(t, "chunk"),
	}
}

// countingReader hands out the data in chunks and counts what was taken.
type countingReader struct {
	data  []byte
	pos   int
	chunk int
	eager bool // the last bytes come together with io.EOF, as the io.Reader contract allows
}

func (r *countingReader) Read(p []byte) (int, error) {
	if r.pos >= len(r.data) {
		return 0, io.EOF
	}
	n := len(p)
	if r.chunk > 0 && n > r.chunk {
		n = r.chunk
	}
	n = copy(p[:n], r.data[r.pos:])
	r.pos += n
	if r.eager && r.pos >= len(r.data) {
		return n, io.EOF
	}
	return n, nil
}

func libTime(b []byte) util.EFITime {
	t := authvar.DecodeTime(b)
	return util.EFITime{Year: t.Year, Month: t.Month, Day: t.Day, Hour: t.Hour, Minute: t.Minute, Second: t.Second, Pad1: t.Pad1,
		Nanosecond: t.Nanosecond, TimeZone: t.TimeZone, Daylight: t.Daylight, Pad2: t.Pad2}
}

// checkDescriptor: in = descriptor ++ payload where the reference says the descriptor occupies n bytes.
func checkDescriptor(in []byte, chunk int, eager bool) error {
	want, n, rerr := authvar.DecodeAuth2(in)
	r := &countingReader{data: in, chunk: chunk, eager: eager}
	got, lerr := signature.ReadEFIVariableAuthencation2(r)
	if rerr != nil || want.Revision != authvar.Revision2 || want.Type != authvar.TypeEFIGUID {
		// not a descriptor by the reference: the library may only answer with an error
		if lerr == nil {
			return fmt.Errorf("ReadEFIVariableAuthencation2 accepted input the reference rejects (%v, revision %#x type %#x): %x", rerr, want.Revision, want.Type, head(in))
		}
		return nil
	}
	if lerr != nil {
		return fmt.Errorf("ReadEFIVariableAuthencation2 rejects a well-formed descriptor (dwLength %d, %d payload bytes): %v", want.Length, len(in)-n, lerr)
	}
	if r.pos != n {
		return fmt.Errorf("decoding consumed %d bytes, the descriptor declares 16 + dwLength = %d (%d payload bytes follow)", r.pos, n, len(in)-n)
	}
	if got.Time != libTime(want.Time[:]) {
		return fmt.Errorf("timestamp %+v, reference %+v", got.Time, authvar.DecodeTime(want.Time[:]))
	}
	h := got.AuthInfo.Header
	if h.Length != want.Length || h.Revision != want.Revision || uint16(h.CertType) != want.Type {
		return fmt.Errorf("header (%d, %#x, %#x), reference (%d, %#x, %#x)", h.Length, h.Revision, h.CertType, want.Length, want.Revision, want.Type)
	}
	if adapt.Ref(got.AuthInfo.CertType) != want.CertType {
		return fmt.Errorf("type GUID %s, reference %s", got.AuthInfo.CertType.Format(), want.CertType.Text())
	}
	if !bytes.Equal(got.AuthInfo.CertData, want.CertData) {
		return fmt.Errorf("certificate data differs: %d bytes vs reference %d bytes", len(got.AuthInfo.CertData), len(want.CertData))
	}
	// encoding the decoded value reproduces the consumed bytes
	var mb bytes.Buffer
	got.Marshal(&mb)
	if !bytes.Equal(mb.Bytes(), in[:n]) {
		return fmt.Errorf("Marshal of the decoded descriptor gives %d bytes, %d were consumed (equal prefix %d)", mb.Len(), n, commonPrefix(mb.Bytes(), in[:n]))
	}
	// encoding into a buffer that already holds bytes (the attribute prefix of a variable file, an earlier descriptor) appends
	pre := bytes.NewBuffer([]byte{7, 0, 0, 0, 1, 2, 3, 4, 5, 6, 7, 8, 9, 10, 11, 12, 13, 14, 15, 16, 17, 18, 19, 20, 21, 22, 23})
	prefix := append([]byte{}, pre.Bytes()...)
	got.Marshal(pre)
	if !bytes.Equal(pre.Bytes(), append(prefix, in[:n]...)) {
		return fmt.Errorf("Marshal into a buffer that already holds %d bytes does not append the consumed bytes to them (first difference at %d)", len(prefix), commonPrefix(pre.Bytes(), append(prefix, in[:n]...)))
	}
	var wb bytes.Buffer
	signature.WriteEFIVariableAuthencation2(&wb, *got)
	if !bytes.Equal(wb.Bytes(), in[:n]) {
		return fmt.Errorf("WriteEFIVariableAuthencation2 of the decoded descriptor gives %d bytes, %d were consumed", wb.Len(), n)
	}
	// the same through Unmarshal on a bytes.Buffer: the payload stays in the buffer
	buf := bytes.NewBuffer(append([]byte{}, in...))
	var u signature.EFIVariableAuthentication2
	if err := u.Unmarshal(buf); err != nil {
		return fmt.Errorf("Unmarshal rejects a well-formed descriptor: %v", err)
	}
	if !bytes.Equal(buf.Bytes(), in[n:]) {
		return fmt.Errorf("Unmarshal left %d bytes in the buffer, the payload has %d", buf.Len(), len(in)-n)
	}
	// the decoded value is independent of the buffer it came from: the caller reuses the buffer, and may extend CertData
	rest := buf.Bytes()
	for i := range rest {
		rest[i] ^= 0x5a
	}
	buf.Reset()
	buf.Write(bytes.Repeat([]byte{0xee}, len(in)))
	u.AuthInfo.CertData = append(u.AuthInfo.CertData, 0x77)
	u.AuthInfo.CertData = u.AuthInfo.CertData[:len(u.AuthInfo.CertData)-1]
	var ub bytes.Buffer
	u.Marshal(&ub)
	if !bytes.Equal(ub.Bytes(), in[:n]) {
		return fmt.Errorf("a descriptor decoded with Unmarshal changed when the source buffer was reused (it shares memory with its input)")
	}
	return nil
}

func head(b []byte) []byte {
	if len(b) > 48 {
		return b[:48]
	}
	return b
}

func commonPrefix(a, b []byte) int {
	i := 0
	for i < len(a) && i < len(b) && a[i] == b[i] {
		i++
	}
	return i
}

func checkWinCert(in []byte, chunk int, eager bool) error {
	want, n, rerr := authvar.DecodeWinCert(in)
	r := &countingReader{data: in, chunk: chunk, eager: eager}
	got, lerr := signature.ReadWinCertificate(r)
	if rerr != nil || want.Revision != authvar.Revision2 {
		if lerr == nil {
			return fmt.Errorf("ReadWinCertificate accepted input the reference rejects (%v, revision %#x): %x", rerr, want.Revision, head(in))
		}
		return nil
	}
	if lerr != nil {
		return fmt.Errorf("ReadWinCertificate rejects a well-formed WIN_CERTIFICATE (dwLength %d): %v", want.Length, lerr)
	}
	if r.pos != n {
		return fmt.Errorf("ReadWinCertificate consumed %d bytes, dwLength is %d", r.pos, n)
	}
	if got.Length != want.Length || got.Revision != want.Revision || uint16(got.CertType) != want.Type || !bytes.Equal(got.Certificate, want.Body) {
		return fmt.Errorf("WIN_CERTIFICATE fields (%d, %#x, %#x, %d body bytes), reference (%d, %#x, %#x, %d)", got.Length, got.Revision, got.CertType, len(got.Certificate), want.Length, want.Revision, want.Type, len(want.Body))
	}
	var wb bytes.Buffer
	signature.WriteWinCertificate(&wb, &got)
	if !bytes.Equal(wb.Bytes(), in[:n]) {
		return fmt.Errorf("WriteWinCertificate of the decoded value gives %d bytes, %d were consumed", wb.Len(), n)
	}
	signature.WriteWinCertificate(&wb, &got)
	if !bytes.Equal(wb.Bytes(), append(append([]byte{}, in[:n]...), in[:n]...)) {
		return fmt.Errorf("WriteWinCertificate of the same value a second time appends %d bytes, the first time %d", wb.Len()-n, n)
	}
	return nil
}

func checkCase(c Case) error {
	if len(c.Time) != 16 || len(c.CertType) != 16 {
		return fmt.Errorf("bad case")
	}
	var ts [16]byte
	copy(ts[:], c.Time)
	ct := guid.FromBE(c.CertType)
	if len(c.CertData) >= 1 && len(c.Payload) >= 1 {
		hx.NonTrivial(c.Time, c.CertType, c.CertData, c.Payload)
		if hx.WantSample() && len(c.CertData) < 200 {
			hx.Sample(c)
		}
	}
	switch {
	case len(c.CertData) == 0:
		hx.Class("certdata_empty")
	case len(c.CertData) >= 4096:
		hx.Class("certdata_ge_4096")
	default:
		hx.Class("certdata_1_4095")
	}
	if len(c.Payload) > 0 {
		hx.Class("with_payload")
	}
	if c.Chunk > 0 {
		hx.Class("chunked_reader")
	}

	// 1. descriptor followed by payload
	desc := authvar.EncodeAuth2(ts, authvar.Revision2, authvar.TypeEFIGUID, ct, c.CertData)
	in := append(append([]byte{}, desc...), c.Payload...)
	if len(c.CertData) >= 2 && len(c.Time)%2 == 0 && c.CertData[0]%2 == 0 {
		// what came before must not matter: a decode of the same descriptor cut off inside its certificate data
		// (it fails), through each entry point, before the decodes that are judged
		cut := len(desc) - len(c.CertData)/2 - 1
		signature.ReadEFIVariableAuthencation2(bytes.NewReader(desc[:cut]))
		signature.ReadWinCertificateUEFIGUID(bytes.NewReader(desc[16:cut]))
		signature.ReadWinCertificate(bytes.NewReader(desc[16:cut]))
		var u signature.EFIVariableAuthentication2
		u.Unmarshal(bytes.NewBuffer(append([]byte{}, desc[:cut]...)))
		hx.Class("truncated_decode_first")
	}
	if err := checkDescriptor(in, c.Chunk, false); err != nil {
		return fmt.Errorf("descriptor: %w", err)
	}
	// the same through a reader that delivers its last bytes together with io.EOF: with the payload behind the
	// descriptor, and with the descriptor ending exactly where the stream ends (an update with an empty payload)
	if err := checkDescriptor(in, c.Chunk, true); err != nil {
		return fmt.Errorf("descriptor, reader returning the last bytes with io.EOF: %w", err)
	}
	if err := checkDescriptor(desc, c.Chunk, true); err != nil {
		return fmt.Errorf("descriptor at the very end of a reader returning the last bytes with io.EOF: %w", err)
	}
	// 2. value -> encode -> decode
	v := signature.EFIVariableAuthentication2{
		Time: libTime(ts[:]),
		AuthInfo: signature.WinCertificateUEFIGUID{
			Header:   signature.WINCertificate{Length: uint32(24 + len(c.CertData)), Revision: authvar.Revision2, CertType: signature.WIN_CERT_TYPE_EFI_GUID},
			CertType: adapt.Lib(ct), CertData: c.CertData,
		},
	}
	var eb bytes.Buffer
	v.Marshal(&eb)
	if !bytes.Equal(eb.Bytes(), desc) {
		return fmt.Errorf("encoding a descriptor value differs from the reference encoding: %d vs %d bytes, equal prefix %d", eb.Len(), len(desc), commonPrefix(eb.Bytes(), desc))
	}
	back, err := signature.ReadEFIVariableAuthencation2(bytes.NewReader(eb.Bytes()))
	if err != nil {
		return fmt.Errorf("decoding an encoded value fails: %v", err)
	}
	if back.Time != v.Time || back.AuthInfo.Header.Length != v.AuthInfo.Header.Length || back.AuthInfo.Header.Revision != v.AuthInfo.Header.Revision ||
		back.AuthInfo.Header.CertType != v.AuthInfo.Header.CertType || back.AuthInfo.CertType != v.AuthInfo.CertType || !bytes.Equal(back.AuthInfo.CertData, v.AuthInfo.CertData) {
		return fmt.Errorf("decode(encode(v)) != v")
	}
	// decoding defines the receiver: a value that held another (longer, then shorter) descriptor holds exactly the
	// new one afterwards
	var reused signature.EFIVariableAuthentication2
	for _, prev := range [][]byte{bytes.Repeat([]byte{0x5a}, len(c.CertData)+37), bytes.Repeat([]byte{0xc3}, len(c.CertData)/2)} {
		if err := reused.Unmarshal(bytes.NewBuffer(authvar.EncodeAuth2(ts, authvar.Revision2, authvar.TypeEFIGUID, authvar.PKCS7GUID, prev))); err != nil {
			return fmt.Errorf("Unmarshal rejects a well-formed descriptor: %v", err)
		}
		if err := reused.Unmarshal(bytes.NewBuffer(append([]byte{}, in...))); err != nil {
			return fmt.Errorf("Unmarshal into a value that held another descriptor rejects a well-formed descriptor: %v", err)
		}
		var rb bytes.Buffer
		reused.Marshal(&rb)
		if !bytes.Equal(rb.Bytes(), desc) || !bytes.Equal(reused.AuthInfo.CertData, c.CertData) {
			return fmt.Errorf("Unmarshal into a value that held a descriptor with %d bytes of certificate data does not yield the descriptor decoded (%d bytes of certificate data): re-encoding gives %d bytes, %d were consumed", len(prev), len(c.CertData), rb.Len(), len(desc))
		}
	}
	// 3. WIN_CERTIFICATE_UEFI_GUID alone
	wu, err := signature.ReadWinCertificateUEFIGUID(bytes.NewReader(in[16:]))
	if err != nil {
		return fmt.Errorf("ReadWinCertificateUEFIGUID rejects a well-formed certificate: %v", err)
	}
	var wub bytes.Buffer
	signature.WriteWinCertificateUEFIGUID(&wub, &wu)
	if !bytes.Equal(wub.Bytes(), desc[16:]) {
		return fmt.Errorf("WriteWinCertificateUEFIGUID of the decoded value gives %d bytes, %d were consumed", wub.Len(), len(desc)-16)
	}
	// encoding is repeatable: the same value written again (behind what is already in the buffer) gives the same bytes
	signature.WriteWinCertificateUEFIGUID(&wub, &wu)
	if !bytes.Equal(wub.Bytes(), append(append([]byte{}, desc[16:]...), desc[16:]...)) {
		return fmt.Errorf("WriteWinCertificateUEFIGUID of the same value a second time appends %d bytes, the first time %d", wub.Len()-(len(desc)-16), len(desc)-16)
	}
	// 4. plain WIN_CERTIFICATE of any type, followed by payload
	wc := append(authvar.EncodeWinCert(authvar.Revision2, c.WinType, c.CertData), c.Payload...)
	if err := checkWinCert(wc, c.Chunk, false); err != nil {
		return fmt.Errorf("WIN_CERTIFICATE type %#x: %w", c.WinType, err)
	}
	if err := checkWinCert(wc[:len(wc)-len(c.Payload)], c.Chunk, true); err != nil {
		return fmt.Errorf("WIN_CERTIFICATE type %#x at the very end of a reader returning the last bytes with io.EOF: %w", c.WinType, err)
	}
	// 5. the GUID-carrying decoder called on its own with a certificate of another wCertificateType: it may refuse,
	// but a value it does return must encode to the bytes it was decoded from
	if c.WinType != authvar.TypeEFIGUID {
		other := authvar.EncodeWinCert(authvar.Revision2, c.WinType, append(append([]byte{}, ct.Wire()...), c.CertData...))
		if w, err := signature.ReadWinCertificateUEFIGUID(bytes.NewReader(append(append([]byte{}, other...), c.Payload...))); err == nil {
			hx.Class("uefi_guid_decoder_other_type_accepted")
			var ob bytes.Buffer
			signature.WriteWinCertificateUEFIGUID(&ob, &w)
			if !bytes.Equal(ob.Bytes(), other) {
				return fmt.Errorf("ReadWinCertificateUEFIGUID accepts a certificate of type %#x (%d bytes) and WriteWinCertificateUEFIGUID of the decoded value gives %d bytes, equal prefix %d", c.WinType, len(other), ob.Len(), commonPrefix(ob.Bytes(), other))
			}
		} else {
			hx.Class("uefi_guid_decoder_other_type_refused")
		}
	}
	return nil
}

var checker = hx.Checker[Case]{Property: "C10", Gen: genCase, Check: checkCase}

func TestC10(t *testing.T) {
	fx := map[string][]byte{}
	for _, p := range fixtures {
		if b, ok := hx.RepoFile(p); ok {
			fx[p] = b
		}
	}
	hx.FixedInputs(t, "C10", "FuzzC10", fx, fuzzOracle)
	checker.Rapid(t)
}
func TestC10Replay(t *testing.T) { checker.Replay(t) }

var fixtures = []string{"tests/data/signatures/varsign/PK.auth", "tests/data/signatures/varsign/KEK.auth", "tests/data/signatures/varsign/db.auth"}

// TestC10Pinned: the sbvarsign fixtures must decode (reference), their payload
// must be a well-formed ESL stream (ties the reference's consumed length to an
// independent fact), and the library must round-trip them.
func TestC10Pinned(t *testing.T) {
	n := 0
	for _, p := range fixtures {
		b, ok := hx.RepoFile(p)
		if !ok {
			continue
		}
		a, used, err := authvar.DecodeAuth2(b)
		if err != nil || a.CertType != authvar.PKCS7GUID {
			t.Fatalf("ORACLE-SELFCHECK-FAIL reference rejects fixture %s: %v", p, err)
		}
		if _, err := esl.Decode(b[used:]); err != nil {
			t.Fatalf("ORACLE-SELFCHECK-FAIL payload after the reference-decoded descriptor of %s is not an ESL stream: %v", p, err)
		}
		n++
	}
	fmt.Printf("ORACLE-SELFCHECK-OK reference descriptor codec splits %d sbvarsign fixtures into descriptor + well-formed ESL payload\n", n)
}

func fuzzOracle(in []byte) error {
	if len(in) > 1<<17 {
		return nil
	}
	if err := checkDescriptor(in, 0, false); err != nil {
		return err
	}
	return checkWinCert(in, 0, false)
}

func FuzzC10(f *testing.F) {
	for _, p := range fixtures {
		if b, ok := hx.RepoFile(p); ok {
			f.Add(b)
		}
	}
	var ts [16]byte
	f.Add(authvar.EncodeAuth2(ts, authvar.Revision2, authvar.TypeEFIGUID, authvar.PKCS7GUID, []byte{1, 2, 3}))
	f.Add(authvar.EncodeWinCert(authvar.Revision2, authvar.TypePKCS, []byte{1, 2, 3, 4, 5}))
	for i := 0; i < 100; i++ {
		c := rapid.Custom(genCase).Example(i)
		if len(c.CertData) < 4096 && len(c.Time) == 16 && len(c.CertType) == 16 {
			var ts [16]byte
			copy(ts[:], c.Time)
			f.Add(append(authvar.EncodeAuth2(ts, authvar.Revision2, authvar.TypeEFIGUID, guid.FromBE(c.CertType), c.CertData), c.Payload...))
		}
	}
	f.Fuzz(hx.FuzzBody("C10", "FuzzC10", fuzzOracle))
}

func TestC10FuzzReplay(t *testing.T) {
	hx.FuzzReplay(t, "C10", map[string]func([]byte) error{"FuzzC10": fuzzOracle})
}
