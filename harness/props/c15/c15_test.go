// C15 — signer, filesystem and reader failures surface as errors, never as success.
//
// For each generated input the dependency-call sequence of every operation is
// learned in a fault-free run through counting wrappers; then every position k
// of the sequence is failed in turn (exhaustive over the sequence) with each
// fault kind.
package c15

import (
	"bytes"
	"crypto"
	"crypto/rsa"
	"encoding/binary"
	"errors"
	"fmt"
	"io"
	"os"
	"strings"
	"testing"

	"github.com/spf13/afero"
	"pgregory.net/rapid"

	"github.com/foxboron/go-uefi/authenticode"
	"github.com/foxboron/go-uefi/efi"
	"github.com/foxboron/go-uefi/efi/attributes"
	efifs "github.com/foxboron/go-uefi/efi/fs"
	"github.com/foxboron/go-uefi/efi/signature"
	"github.com/foxboron/go-uefi/efi/util"
	"github.com/foxboron/go-uefi/efivar"
	"github.com/foxboron/go-uefi/efivarfs"
	"github.com/foxboron/go-uefi/pkcs7"

	"verifharness/gen"
	"verifharness/hx"
	"verifharness/recfs"
	"verifharness/ref/acode"
	"verifharness/ref/esl"
	"verifharness/ref/pehash"
)

var errInjected = errors.New("c15: injected dependency failure")

// failSigner fails its k-th Sign call.
type failSigner struct {
	inner  crypto.Signer
	failAt int
	calls  int
}

func (s *failSigner) Public() crypto.PublicKey { return s.inner.Public() }
func (s *failSigner) Sign(r io.Reader, d []byte, o crypto.SignerOpts) ([]byte, error) {
	s.calls++
	if s.calls == s.failAt {
		return nil, errInjected
	}
	return s.inner.Sign(r, d, o)
}

// rawValue receives a variable's value undecoded.
type rawValue []byte

func (r *rawValue) Unmarshal(b *bytes.Buffer) error { *r = append([]byte{}, b.Bytes()...); return nil }

func mutating(op string) bool {
	return strings.HasPrefix(op, "File.Write") || strings.HasPrefix(op, "File.Truncate") || op == "Fs.Remove" || op == "Fs.RemoveAll" || op == "Fs.Rename" || op == "Fs.Create"
}

// faultReaderAt fails its k-th ReadAt call (or every call from the k-th on).
type faultReaderAt struct {
	data   []byte
	calls  int
	failAt int
	kind   string // error | short | sticky | short_eof
	fired  bool
}

func (f *faultReaderAt) ReadAt(p []byte, off int64) (int, error) {
	f.calls++
	if f.failAt > 0 && (f.calls == f.failAt || (f.kind == "sticky" && f.calls >= f.failAt)) {
		if f.kind == "short_eof" {
			// the file ends earlier than it did a moment ago (truncated underneath the reader): fewer bytes than a
			// healthy read would deliver here, and io.EOF. Where a healthy read would deliver one byte or none there
			// is nothing to take away, and the call is not a fault.
			legit := 0
			if off < int64(len(f.data)) {
				legit = copy(p, f.data[off:])
			}
			if legit < 2 {
				if legit < len(p) {
					return legit, io.EOF
				}
				return legit, nil
			}
			f.fired = true
			return legit / 2, io.EOF
		}
		f.fired = true
		if f.kind == "short" && len(p) > 1 && off < int64(len(f.data)) {
			n := copy(p[:len(p)/2], f.data[off:])
			return n, io.ErrUnexpectedEOF
		}
		return 0, errInjected
	}
	if off >= int64(len(f.data)) {
		return 0, io.EOF
	}
	n := copy(p, f.data[off:])
	if n < len(p) {
		return n, io.EOF
	}
	return n, nil
}

// faultReader fails its k-th Read call.
type faultReader struct {
	r      io.Reader
	calls  int
	failAt int
}

func (f *faultReader) Read(p []byte) (int, error) {
	f.calls++
	if f.calls == f.failAt {
		return 0, errInjected
	}
	return f.r.Read(p)
}

type Case struct {
	Img     hx.Hex // unsigned well-formed image
	Payload hx.Hex // encoded signature database
	Var     int    // 0 PK 1 KEK 2 db 3 dbx
	Ident   int
	FSConf  int // how the variable layer is configured: 0 as NewFS gives it, 1 CheckImmutable, 2 CheckImmutable and UnsetImmutable
}

// newFS is efivarfs.NewFS with the configuration of the case. The immutable-flag handling looks at the host's own
// efivars directory (not at the injected file system), so it is switched on only where the host has none.
func newFS(conf int) *efivarfs.EFIFS {
	fs := efivarfs.NewFS()
	if conf == 0 {
		return fs
	}
	if _, err := os.Stat(attributes.Efivars); err == nil {
		hx.Class("fs_configuration_skipped_host_has_efivars")
		return fs
	}
	hx.Class(fmt.Sprintf("fs_configuration_%d", conf))
	fs = fs.CheckImmutable()
	if conf == 2 {
		fs = fs.UnsetImmutable()
	}
	return fs
}

var sbVars = []efivar.Efivar{efivar.PK, efivar.KEK, efivar.Db, efivar.Dbx}

func genCase(t *rapid.T) Case {
	o := gen.SmallPE
	o.Table = false
	ls := gen.ESLStream(2).Draw(t, "db")
	var keep []esl.List
	for _, l := range ls {
		if l.Type != esl.ExtMgm {
			keep = append(keep, l)
		}
	}
	if gen.Chance(t, "bigvariable", 1, 12) {
		// a variable larger than 64 KiB (a revocation list of 1400..1600 hashes): buffers, limits and read sizes that
		// are fine for small variables meet their bounds here
		n := rapid.IntRange(1366, 1600).Draw(t, "nhashes")
		l := esl.List{Type: esl.SHA256, Size: 48}
		seed := rapid.Uint64().Draw(t, "hashseed") | 1
		for i := 0; i < n; i++ {
			d := make([]byte, 32)
			for j := range d {
				seed ^= seed << 13
				seed ^= seed >> 7
				seed ^= seed << 17
				d[j] = byte(seed >> 24)
			}
			l.Entries = append(l.Entries, esl.Entry{Owner: gen.Owners[i%len(gen.Owners)], Data: d})
		}
		keep = []esl.List{l}
	}
	return Case{Img: gen.PEImage(o).Draw(t, "img"), Payload: esl.Encode(keep), Var: rapid.IntRange(0, 3).Draw(t, "var"), Ident: rapid.IntRange(0, 3).Draw(t, "ident"),
		FSConf: rapid.SampledFrom([]int{0, 0, 1, 2, 2}).Draw(t, "fsconf")}
}

type tally struct {
	op     string
	points int
}

func fault(op string, k int, kind string) {
	hx.Eval()
	hx.Class("op/" + op)
	hx.Class("kind/" + kind)
	if k > 1 {
		hx.NonTrivial([]byte(op), []byte(kind), []byte{byte(k), byte(k >> 8)}, curInput)
	}
}

var curInput []byte

func checkCase(c Case) error {
	id := gen.FixedIdents()[c.Ident%4]
	key := id.Priv()
	img := []byte(c.Img)
	curInput = append(append([]byte{}, c.Img...), c.Payload...)
	v := sbVars[c.Var%4]
	db, err := signature.ReadSignatureDatabase(bytes.NewReader(c.Payload))
	if err != nil {
		return fmt.Errorf("bad case: payload: %v", err)
	}
	var points []tally

	// ---- A. signer failures --------------------------------------------------------------
	// the fault-free run tells how often each operation calls the signer
	count := func(f func(s crypto.Signer) error) (int, error) {
		fs := &failSigner{inner: key}
		err := f(fs)
		return fs.calls, err
	}
	signerOps := map[string]func(s crypto.Signer) error{
		"SignPKCS7": func(s crypto.Signer) error {
			b, err := pkcs7.SignPKCS7(s, id.Cert, pkcs7.OIDData, []byte("content"))
			if err == nil && len(b) == 0 {
				return fmt.Errorf("empty result without error")
			}
			return err
		},
		"SignAuthenticode": func(s crypto.Signer) error {
			_, err := authenticode.SignAuthenticode(s, id.Cert, bytes.NewReader(img), crypto.SHA256)
			return err
		},
		"SignEFIVariable": func(s crypto.Signer) error {
			_, _, err := signature.SignEFIVariable(v, &db, s, id.Cert)
			return err
		},
	}
	for name, op := range signerOps {
		n, err := count(op)
		if err != nil {
			return fmt.Errorf("%s fails without any fault: %v", name, err)
		}
		points = append(points, tally{name, n})
		for k := 1; k <= n; k++ {
			fault(name+"/signer", k, "error")
			fs := &failSigner{inner: key, failAt: k}
			if err := op(fs); err == nil {
				return fmt.Errorf("%s: the signer's call %d of %d failed but the operation reported success", name, k, n)
			}
		}
	}
	// image signing: error, and the object keeps its state
	{
		bin, err := authenticode.Parse(bytes.NewReader(img))
		if err != nil {
			return fmt.Errorf("bad case: Parse: %v", err)
		}
		before := bin.Bytes()
		fault("PECOFFBinary.Sign/signer", 1, "error")
		sig, err := bin.Sign(&failSigner{inner: key, failAt: 1}, id.Cert)
		if err == nil || sig != nil {
			return fmt.Errorf("PECOFFBinary.Sign: the signer failed but Sign returned (%d bytes, %v)", len(sig), err)
		}
		if sigs, _ := bin.Signatures(); len(sigs) != 0 {
			return fmt.Errorf("PECOFFBinary.Sign: failed signing left %d signatures on the image object", len(sigs))
		}
		if !bytes.Equal(bin.Bytes(), before) {
			return fmt.Errorf("PECOFFBinary.Sign: failed signing changed the image object")
		}
		// a later successful signature is still possible and correct
		if _, err := bin.Sign(key, id.Cert); err != nil {
			return fmt.Errorf("PECOFFBinary.Sign after a failed attempt: %v", err)
		}
		if ok, err := bin.Verify(id.Cert); !ok || err != nil {
			return fmt.Errorf("image signed after a failed attempt does not verify: %v %v", ok, err)
		}
	}
	// signed update: a failing signer must leave the file system untouched
	{
		rec := recfs.New(afero.NewMemMapFs(), "MemMapFS")
		fs := efivarfs.NewFS()
		fs.SetFS(rec)
		fault("WriteSignedUpdate/signer", 1, "error")
		if err := fs.Open().WriteSignedUpdate(v, &db, &failSigner{inner: key, failAt: 1}, id.Cert); err == nil {
			return fmt.Errorf("WriteSignedUpdate: the signer failed but the update reported success")
		}
		if ev := rec.Events(); len(ev) != 0 {
			return fmt.Errorf("WriteSignedUpdate: the signer failed but the file system was touched: %s %s", ev[0].Op, ev[0].Path)
		}
		// every position of the signer-call sequence, also for an append update of a database with several lists
		// (should the operation ever ask the signer more than once, a failure of a later call still writes nothing)
		multi := signature.SignatureDatabase{}
		for i := 0; i < 3; i++ {
			l := signature.NewSignatureList(signature.CERT_X509_GUID)
			if err := l.AppendBytes(util.EFIGUID{Data1: uint32(i + 1)}, bytes.Repeat([]byte{byte(0x30 + i)}, 40+7*i)); err != nil {
				return fmt.Errorf("bad case: %v", err)
			}
			multi.AppendList(l)
		}
		for _, variant := range []struct {
			name string
			v    efivar.Efivar
			m    efivar.Marshallable
		}{
			{"append update of three lists", efivar.Efivar{Name: v.Name, GUID: v.GUID, Attributes: v.Attributes | attributes.EFI_VARIABLE_APPEND_WRITE}, &multi},
			{"update of three lists", v, &multi},
		} {
			count := &failSigner{inner: key}
			okfs := efivarfs.NewFS()
			okfs.SetFS(recfs.New(afero.NewMemMapFs(), "MemMapFS"))
			if err := okfs.Open().WriteSignedUpdate(variant.v, variant.m, count, id.Cert); err != nil {
				return fmt.Errorf("WriteSignedUpdate (%s) fails without any fault: %v", variant.name, err)
			}
			points = append(points, tally{"WriteSignedUpdate/signer (" + variant.name + ")", count.calls})
			for k := 1; k <= count.calls+1; k++ {
				fault("WriteSignedUpdate/signer", k, "error")
				rec := recfs.New(afero.NewMemMapFs(), "MemMapFS")
				ffs := efivarfs.NewFS()
				ffs.SetFS(rec)
				fsig := &failSigner{inner: key, failAt: k}
				err := ffs.Open().WriteSignedUpdate(variant.v, variant.m, fsig, id.Cert)
				if fsig.calls < k {
					continue // the operation did not issue a k-th call
				}
				if err == nil {
					return fmt.Errorf("WriteSignedUpdate (%s): call %d of the signer failed but the update reported success", variant.name, k)
				}
				for _, ev := range rec.Events() {
					if mutating(ev.Op) || ev.Op == "Fs.OpenFile" {
						return fmt.Errorf("WriteSignedUpdate (%s): call %d of the signer failed, yet the file system was written to: %s %s", variant.name, k, ev.Op, ev.Path)
					}
				}
			}
		}
	}

	// ---- B. stream reader of SignAuthenticode ---------------------------------------------
	{
		fr := &faultReader{r: bytes.NewReader(img)}
		if _, err := authenticode.SignAuthenticode(key, id.Cert, fr, crypto.SHA256); err != nil {
			return fmt.Errorf("SignAuthenticode fails without any fault: %v", err)
		}
		n := fr.calls
		points = append(points, tally{"SignAuthenticode/stream", n})
		for k := 1; k <= n; k++ {
			fault("SignAuthenticode/stream", k, "error")
			if b, err := authenticode.SignAuthenticode(key, id.Cert, &faultReader{r: bytes.NewReader(img), failAt: k}, crypto.SHA256); err == nil {
				return fmt.Errorf("SignAuthenticode: read %d of %d of the stream failed but a signature (%d bytes) was returned", k, n, len(b))
			}
		}
	}

	// ---- C. image reader (io.ReaderAt) ------------------------------------------------------
	{
		// learn how many reads each phase issues
		base := &faultReaderAt{data: img}
		bin, err := authenticode.Parse(base)
		if err != nil {
			return fmt.Errorf("bad case: Parse: %v", err)
		}
		nParse := base.calls
		want := bin.Hash(crypto.SHA256)
		nHash := base.calls - nParse
		if ref, err := pehash.Hash(img); err != nil || !bytes.Equal(ref.Digest, want) {
			return fmt.Errorf("fault-free Hash returns %x, the specification digest is %x (state left behind by an earlier failed operation?)", want, refDigest(ref))
		}
		if _, err := bin.Sign(key, id.Cert); err != nil {
			return fmt.Errorf("bad case: Sign: %v", err)
		}
		nSign := base.calls - nParse - nHash
		if ok, err := bin.Verify(id.Cert); !ok || err != nil {
			return fmt.Errorf("bad case: Verify: %v %v", ok, err)
		}
		nVerify := base.calls - nParse - nHash - nSign
		signed := bin.Bytes()
		points = append(points, tally{"Parse/reader", nParse}, tally{"Hash/reader", nHash}, tally{"Sign/reader", nSign}, tally{"Verify/reader", nVerify})
		for _, kind := range []string{"error", "short", "sticky", "short_eof"} {
			// While Parse reads, a premature end of file is not a failure it could recognise: it reads the tail of the
			// file until EOF, and a reader that says EOF earlier simply is a shorter file. The short_eof kind therefore
			// applies to the operations after Parse, where the sizes are known.
			for k := 1; k <= nParse && kind != "short_eof"; k++ {
				fault("Parse/reader", k, kind)
				r := &faultReaderAt{data: img, failAt: k, kind: kind}
				p, err := authenticode.Parse(r)
				if r.fired && err == nil {
					// Parse reported success although one of its reads failed: whatever it returns must not be a wrong digest
					if d := p.Hash(crypto.SHA256); d != nil && !bytes.Equal(d, want) {
						return fmt.Errorf("Parse: read %d of %d failed (%s), Parse reported success and Hash then returned a wrong digest", k, nParse, kind)
					}
					return fmt.Errorf("Parse: read %d of %d of the image failed (%s) but Parse reported success", k, nParse, kind)
				}
			}
			// ... and parsing the signed image (the certificate table is read too)
			sb := &faultReaderAt{data: signed}
			if _, err := authenticode.Parse(sb); err != nil {
				return fmt.Errorf("bad case: Parse of the signed image: %v", err)
			}
			for k := 1; k <= sb.calls && kind != "short_eof"; k++ {
				fault("Parse(signed)/reader", k, kind)
				r := &faultReaderAt{data: signed, failAt: k, kind: kind}
				p, err := authenticode.Parse(r)
				if r.fired && err == nil {
					n := -1
					if sigs, serr := p.Signatures(); serr == nil {
						n = len(sigs)
					}
					return fmt.Errorf("Parse of a signed image: read %d of %d failed (%s) but Parse reported success (the object lists %d signatures, Bytes() equal to the file: %v)", k, sb.calls, kind, n, bytes.Equal(p.Bytes(), signed))
				}
			}
			for k := 1; k <= nHash; k++ {
				fault("Hash/reader", k, kind)
				r := &faultReaderAt{data: img}
				p, err := authenticode.Parse(r)
				if err != nil {
					return fmt.Errorf("bad case: Parse: %v", err)
				}
				r.failAt, r.kind = r.calls+k, kind
				if d := p.Hash(crypto.SHA256); d != nil {
					if r.fired {
						return fmt.Errorf("Hash: read %d of %d failed (%s) but a digest was returned (%x, correct digest %x)", k, nHash, kind, d, want)
					}
				}
				if r.fired && kind != "sticky" {
					// the fault is over: a second call on the same object gives no digest or the right one, never a wrong one
					if d := p.Hash(crypto.SHA256); d != nil && !bytes.Equal(d, want) {
						return fmt.Errorf("Hash: after read %d of %d had failed once (%s), a second Hash on the same object returned the wrong digest %x (correct %x)", k, nHash, kind, d, want)
					}
				}
			}
			for k := 1; k <= nSign; k++ {
				fault("Sign/reader", k, kind)
				r := &faultReaderAt{data: img}
				p, err := authenticode.Parse(r)
				if err != nil {
					return fmt.Errorf("bad case: Parse: %v", err)
				}
				r.failAt, r.kind = r.calls+k, kind
				sig, err := p.Sign(key, id.Cert)
				if r.fired && err == nil {
					return fmt.Errorf("Sign: read %d of %d of the image failed (%s) but Sign returned a signature of %d bytes", k, nSign, kind, len(sig))
				}
				if r.fired {
					r.failAt = 0
					if sigs, _ := p.Signatures(); len(sigs) != 0 {
						return fmt.Errorf("Sign: failed signing (reader fault) left %d signatures on the image object", len(sigs))
					}
					// a later signature on the same object must be a correct one
					if _, err := p.Sign(key, id.Cert); err == nil {
						if ok, why := acode.VerifyImage(p.Bytes(), id.Cert); !ok {
							return fmt.Errorf("Sign: after read %d of %d had failed once (%s), a second Sign on the same object produced a signed image the reference rejects: %s", k, nSign, kind, why)
						}
					}
				}
			}
			for k := 1; k <= nVerify; k++ {
				fault("Verify/reader", k, kind)
				r := &faultReaderAt{data: signed}
				p, err := authenticode.Parse(r)
				if err != nil {
					return fmt.Errorf("bad case: Parse of the signed image: %v", err)
				}
				r.failAt, r.kind = r.calls+k, kind
				ok, err := p.Verify(id.Cert)
				if r.fired && (ok || err == nil) {
					return fmt.Errorf("Verify: read %d of %d of the image failed (%s) but Verify returned (%v, %v)", k, nVerify, kind, ok, err)
				}
			}
		}
		// the same for an image that carries two signatures the certificate verifies: a read that failed while the first
		// one was being checked is a failed verification, whatever the second one would say
		if _, err := bin.Sign(key, id.Cert); err != nil {
			return fmt.Errorf("bad case: second Sign: %v", err)
		}
		signed2 := bin.Bytes()
		probe := &faultReaderAt{data: signed2}
		pp, err := authenticode.Parse(probe)
		if err != nil {
			return fmt.Errorf("bad case: Parse of the twice-signed image: %v", err)
		}
		before := probe.calls
		if ok, err := pp.Verify(id.Cert); !ok || err != nil {
			return fmt.Errorf("bad case: Verify of the twice-signed image: %v %v", ok, err)
		}
		nVerify2 := probe.calls - before
		points = append(points, tally{"Verify(two signatures)/reader", nVerify2})
		for _, kind := range []string{"error", "short"} {
			// reads that the fault-free run does not issue (a second pass over the image) are covered too
			for k := 1; k <= 2*nVerify2; k++ {
				fault("Verify(two signatures)/reader", k, kind)
				r := &faultReaderAt{data: signed2}
				p, err := authenticode.Parse(r)
				if err != nil {
					return fmt.Errorf("bad case: Parse of the twice-signed image: %v", err)
				}
				r.failAt, r.kind = r.calls+k, kind
				ok, err := p.Verify(id.Cert)
				if r.fired && (ok || err == nil) {
					return fmt.Errorf("Verify of an image with two signatures: read %d of the image failed (%s) but Verify returned (%v, %v)", k, kind, ok, err)
				}
			}
		}
	}

	// ---- D. file system -----------------------------------------------------------------------
	value := append(binary.LittleEndian.AppendUint32(nil, uint32(v.Attributes)), c.Payload...)
	name := "/sys/firmware/efi/efivars/" + v.Name + "-" + v.GUID.Format()
	type fsop struct {
		name  string
		write bool
		run   func(rec *recfs.FS) (okValue bool, err error)
	}
	fsops := []fsop{
		{"WriteVar", true, func(rec *recfs.FS) (bool, error) {
			fs := newFS(c.FSConf)
			fs.SetFS(rec)
			return true, fs.WriteVar(v, &db)
		}},
		{"WriteSignedUpdate", true, func(rec *recfs.FS) (bool, error) {
			fs := newFS(c.FSConf)
			fs.SetFS(rec)
			return true, fs.Open().WriteSignedUpdate(v, &db, key, id.Cert)
		}},
		{"legacy WriteEfivarsWithGuid", true, func(rec *recfs.FS) (bool, error) {
			saved := efifs.Fs
			efifs.SetFS(rec)
			defer efifs.SetFS(saved)
			return true, attributes.WriteEfivarsWithGuid(v.Name, v.Attributes, c.Payload, *v.GUID)
		}},
		{"GetVar", false, func(rec *recfs.FS) (bool, error) {
			fs := newFS(c.FSConf)
			fs.SetFS(rec)
			var got signature.SignatureDatabase
			err := fs.GetVar(v, &got)
			return err != nil || bytes.Equal(got.Bytes(), c.Payload), err
		}},
		{"GetVar (undecoded value)", false, func(rec *recfs.FS) (bool, error) {
			// the same read with a receiver that takes the bytes as they are: a value cut short is a wrong value
			// even where a decoder would have stumbled over the cut
			fs := newFS(c.FSConf)
			fs.SetFS(rec)
			var got rawValue
			err := fs.GetVar(v, &got)
			return err != nil || bytes.Equal(got, c.Payload), err
		}},
		{"typed getter", false, func(rec *recfs.FS) (bool, error) {
			fs := newFS(c.FSConf)
			fs.SetFS(rec)
			e := fs.Open()
			var got *signature.SignatureDatabase
			var err error
			switch c.Var % 4 {
			case 0:
				got, err = e.GetPK()
			case 1:
				got, err = e.GetKEK()
			case 2:
				got, err = e.Getdb()
			default:
				got, err = e.Getdbx()
			}
			return err != nil || (got != nil && bytes.Equal(got.Bytes(), c.Payload)), err
		}},
		{"legacy typed getter", false, func(rec *recfs.FS) (bool, error) {
			saved, savedDir := efifs.Fs, attributes.Efivars
			efifs.SetFS(rec)
			attributes.Efivars = "/sys/firmware/efi/efivars"
			defer func() { efifs.SetFS(saved); attributes.Efivars = savedDir }()
			var got *signature.SignatureDatabase
			var err error
			switch c.Var % 4 {
			case 0:
				got, err = efi.GetPK()
			case 1:
				got, err = efi.GetKEK()
			case 2:
				got, err = efi.Getdb()
			default:
				got, err = efi.Getdbx()
			}
			return err != nil || (got != nil && bytes.Equal(got.Bytes(), c.Payload)), err
		}},
		{"legacy ReadEfivarsWithGuid", false, func(rec *recfs.FS) (bool, error) {
			saved := efifs.Fs
			efifs.SetFS(rec)
			defer efifs.SetFS(saved)
			_, buf, err := attributes.ReadEfivarsWithGuid(v.Name, *v.GUID)
			return err != nil || (buf != nil && bytes.Equal(buf.Bytes(), c.Payload)), err
		}},
	}
	for _, op := range fsops {
		// write operations meet a variable that already holds an (older, longer) value in every other case
		old := append(append([]byte{}, value[:4]...), bytes.Repeat([]byte("the value the variable held before. "), 4+len(value)/30)...)
		prepop := op.write && len(c.Payload)%2 == 0
		var lastMem afero.Fs
		mk := func() *recfs.FS {
			mem := afero.NewMemMapFs()
			if !op.write {
				afero.WriteFile(mem, name, value, 0644)
			} else if prepop {
				afero.WriteFile(mem, name, old, 0644)
			}
			lastMem = mem
			return recfs.New(mem, "MemMapFS")
		}
		base := mk()
		if okv, err := op.run(base); err != nil || !okv {
			return fmt.Errorf("%s fails without any fault: %v (value ok %v)", op.name, err, okv)
		}
		n := base.Points()
		points = append(points, tally{op.name + "/fs", n})
		evs := base.Events()
		for k := 1; k <= n; k++ {
			var at recfs.Event
			for _, e := range evs {
				if e.Seq == k {
					at = e
				}
			}
			// the plain sentinel, and errno values the way the os package reports them ("try again" ones included:
			// a failed call is a failed operation whatever the reason)
			kinds := []string{"error", "error:EINTR", "error:EAGAIN", "error:ENOSPC"}
			if at.Op == "File.Write" || at.Op == "File.Read" {
				kinds = append(kinds, "short")
			}
			if at.Op == "File.Read" {
				kinds = append(kinds, "short_ok")
			}
			if at.Op == "File.Write" {
				kinds = append(kinds, "short1")
			}
			for _, kind := range kinds {
				fault(op.name+"/"+at.Op, k, kind)
				rec := mk()
				rec.Fault = recfs.Fault{At: k, Kind: kind}
				if strings.HasPrefix(kind, "error:") {
					rec.Fault = recfs.Fault{At: k, Kind: "error", Cause: strings.TrimPrefix(kind, "error:")}
				}
				okv, err := op.run(rec)
				if !rec.Fired {
					continue
				}
				if kind == "short_ok" {
					// a short count without an error is legal reader behaviour, not a failure: the operation may succeed,
					// but then with the right value
					if !okv {
						return fmt.Errorf("%s: read %d of %d returned a short count without error and the operation returned a wrong value (err=%v)", op.name, k, n, err)
					}
					continue
				}
				if err == nil {
					if !op.write && (at.Op == "File.Close" || at.Op == "File.Stat") {
						// A Close failure after a fully successful read, or a failing Stat whose answer is only a hint
						// (how large to make the buffer): the value is not in doubt (os.ReadFile / afero.ReadFile behave
						// the same). Recorded, not raised - as long as the value returned is the right one; a reader
						// that trusts a failed Stat and returns something else is reported.
						hx.Class(strings.ToLower(strings.TrimPrefix(at.Op, "File.")) + "_failure_on_the_read_path_not_reported_value_correct")
						if !okv {
							return fmt.Errorf("%s: %s (call %d of %d) failed and a wrong value was returned", op.name, at.Op, k, n)
						}
						continue
					}
					return fmt.Errorf("%s: %s (dependency call %d of %d) failed with kind %q but the operation reported success", op.name, at.Op, k, n, kind)
				}
				if !okv {
					return fmt.Errorf("%s: %s (call %d of %d) failed and a wrong value was returned together with the error", op.name, at.Op, k, n)
				}
				if prepop && strings.HasPrefix(kind, "error") && (at.Op == "Fs.OpenFile" || at.Op == "File.Write") {
					// the open or the (one) write call failed without taking a byte: the failed update has written nothing,
					// so the variable still holds what it held
					hx.Class("failed_write_over_an_existing_value")
					if now, rerr := afero.ReadFile(lastMem, name); rerr != nil || !bytes.Equal(now, old) {
						return fmt.Errorf("%s: %s (call %d of %d) failed with kind %q; the variable held %d bytes before and holds %d after the failed operation (read error: %v)", op.name, at.Op, k, n, kind, len(old), len(now), rerr)
					}
				}
			}
		}
	}
	if hx.WantSample() {
		hx.Sample(map[string]any{"image_bytes": len(img), "payload_bytes": len(c.Payload), "variable": v.Name, "dependency_calls_per_operation": fmt.Sprint(points)})
	}
	for _, p := range points {
		hx.SetExtra("dependency_calls_last_case/"+p.op, fmt.Sprint(p.points))
	}
	return nil
}

func refDigest(r *pehash.Result) []byte {
	if r == nil {
		return nil
	}
	return r.Digest
}

var _ = rsa.PublicKey{}

var checker = hx.Checker[Case]{Property: "C15", Gen: genCase, Check: checkCase, ManualEval: true, Journal: true}

func TestC15(t *testing.T)       { checker.Rapid(t) }
func TestC15Replay(t *testing.T) { checker.Replay(t) }
func TestC15Pinned(t *testing.T) {
	// the fault injectors themselves: a failing signer / reader / file system must be seen as failing by plain std code
	fs := &failSigner{inner: gen.Keys()[0], failAt: 1}
	if _, err := fs.Sign(nil, make([]byte, 32), crypto.SHA256); err == nil {
		t.Fatalf("ORACLE-SELFCHECK-FAIL failing signer does not fail")
	}
	r := &faultReaderAt{data: make([]byte, 100), failAt: 2, kind: "error"}
	if _, err := io.ReadAll(io.NewSectionReader(r, 0, 100)); err != nil {
		t.Fatalf("ORACLE-SELFCHECK-FAIL first read must succeed: %v", err)
	}
	if _, err := io.ReadAll(io.NewSectionReader(r, 0, 100)); err == nil {
		t.Fatalf("ORACLE-SELFCHECK-FAIL second read must fail")
	}
	rec := recfs.New(afero.NewMemMapFs(), "MemMapFS")
	rec.Fault = recfs.Fault{At: 2, Kind: "short"}
	f, _ := rec.OpenFile("/x", 0x41, 0644)
	if n, err := f.Write([]byte("abcdef")); err != nil || n != 3 {
		t.Fatalf("ORACLE-SELFCHECK-FAIL short write injector returned (%d, %v)", n, err)
	}
	fmt.Println("ORACLE-SELFCHECK-OK fault injectors (signer, ReaderAt, file system incl. short write) behave as specified")
}
