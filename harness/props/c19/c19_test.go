// C19 — read-only operations are pure, repeatable and safe to call concurrently.
// Built with -race; GORACE=halt_on_error=1 makes the first reported race end the
// process, so the journaled case is the racing one.
package c19

import (
	"bytes"
	"crypto"
	"crypto/sha256"
	"encoding/binary"
	"errors"
	"fmt"
	"io"
	"sync"
	"sync/atomic"
	"testing"

	"pgregory.net/rapid"

	"github.com/foxboron/go-uefi/authenticode"
	"github.com/foxboron/go-uefi/efi/signature"
	"github.com/foxboron/go-uefi/efivar"

	"verifharness/adapt"
	"verifharness/gen"
	"verifharness/hx"
	"verifharness/ref/acode"
	"verifharness/ref/esl"
)

type Op struct {
	Kind string
	Arg  int
}

type Case struct {
	Object  string // image | database | signed_update | descriptor
	Img     hx.Hex // signed image
	Signers []int  // fixed identities that signed it
	DB      hx.Hex // database stream
	Ident   int
	Lists   [][]Op // one operation list per goroutine; list 0 is also run sequentially first
	NoSeq   bool   // skip the sequential phase: the goroutines make the very first calls on the fresh object
	BadTail bool   // image: a malformed WIN_CERTIFICATE (wrong revision) follows the valid entries
	Reuse   int    // database: > 0 decodes it with Unmarshal from the caller's bytes.Buffer behind Reuse-1 other bytes; the caller then resets that buffer and encodes the database into it
}

var opKinds = map[string][]string{
	"image":         {"Hash", "Bytes", "Open", "Signatures", "Verify", "Verify", "VerifyOutsider", "VerifyTwin", "NeighbourFault", "OwnReaderFault", "VerifyThroughOneVariable"},
	"database":      {"Bytes", "Marshal", "SigDataExists", "BytesExists", "Exists", "ExistsSpread", "ExistsAbsent", "ListBytes"},
	"signed_update": {"Marshal", "Bytes"},
	"descriptor":    {"Marshal", "Verify", "VerifyOutsider", "VerifyTwin"},
}

func genCase(t *rapid.T) Case {
	c := Case{Object: rapid.SampledFrom([]string{"image", "image", "database", "signed_update", "descriptor"}).Draw(t, "object"), Ident: rapid.IntRange(0, 3).Draw(t, "ident")}
	switch c.Object {
	case "image":
		o := gen.SmallPE
		o.Table = false
		img := gen.PEImage(o).Draw(t, "img")
		bin, err := authenticode.Parse(bytes.NewReader(img))
		if err != nil {
			t.Fatalf("Parse: %v", err)
		}
		twinFirst := rapid.IntRange(0, 3).Draw(t, "twin_signature_first") == 0
		for i := rapid.IntRange(1, 3).Draw(t, "nsig"); i > 0; i-- {
			id := rapid.IntRange(0, 3).Draw(t, "signer")
			if twinFirst {
				// a signature by another key under the same issuer and serial (a re-issued certificate) comes first in the
				// table: asking about the certificate meets an entry that names it and does not verify, then one that does
				twinFirst = false
				if tw, terr := gen.Twin(gen.FixedIdents()[id], 5); terr == nil {
					if _, err := bin.Sign(tw.Priv(), tw.Cert); err != nil {
						t.Fatalf("Sign: %v", err)
					}
				}
			}
			if _, err := bin.Sign(gen.FixedIdents()[id].Priv(), gen.FixedIdents()[id].Cert); err != nil {
				t.Fatalf("Sign: %v", err)
			}
			c.Signers = append(c.Signers, id)
		}
		c.Img = bin.Bytes()
		if rapid.IntRange(0, 3).Draw(t, "dirtypadding") == 0 {
			// the alignment bytes after each table entry are not covered by anything: make them non-zero
			if es, l, err := acode.Table(c.Img); err == nil && l != nil {
				img := append([]byte{}, c.Img...)
				for _, e := range es {
					for k := range e.Padding {
						img[int(l.CertVA)+e.Offset+int(e.Length)+k] = 0xd0 + byte(k)
					}
				}
				c.Img = img
			}
		}
		if rapid.IntRange(0, 4).Draw(t, "badtail") == 0 {
			// append an entry with an unsupported revision: listing / verifying then fails, and must fail the same way every time
			if es, _, err := acode.Table(c.Img); err == nil {
				table := []byte{}
				for _, e := range es {
					table = append(table, acode.BuildTable([][]byte{e.Blob})...)
				}
				bad := acode.BuildTable([][]byte{gen.FillBytes(t, 24)})
				bad[4], bad[5] = 0x00, 0x01
				if out, err := acode.WithTable(c.Img, append(table, bad...)); err == nil {
					c.Img, c.BadTail = out, true
				}
			}
		}
		if !c.BadTail && rapid.IntRange(0, 5).Draw(t, "cutpadding") == 0 {
			// the file ends with the last entry itself, without the alignment bytes behind it (a truncating copy): the
			// certificate table then is not a multiple of 8 long
			if es, l, err := acode.Table(c.Img); err == nil && l != nil && len(es) > 0 {
				if p := len(es[len(es)-1].Padding); p > 0 {
					img := append([]byte{}, c.Img[:len(c.Img)-p]...)
					binary.LittleEndian.PutUint32(img[l.DD4Off+4:], l.CertSize-uint32(p))
					c.Img = img
				}
			}
		}
	default:
		ls := gen.ESLStream(4).Draw(t, "db")
		var keep []esl.List
		for _, l := range ls {
			if l.Type != esl.ExtMgm {
				keep = append(keep, l)
			}
		}
		if rapid.IntRange(0, 2).Draw(t, "biglist") == 0 {
			big := esl.List{Type: esl.SHA256, Size: 48}
			for i := rapid.IntRange(33, 60).Draw(t, "bign"); i > 0; i-- {
				big.Entries = append(big.Entries, esl.Entry{Owner: gen.Owners[i%3], Data: gen.FillBytes(t, 32)})
			}
			keep = append(keep, big)
		}
		c.DB = esl.Encode(keep)
		if c.Object == "database" && rapid.Bool().Draw(t, "decoded_from_a_reused_buffer") {
			c.Reuse = 1 + rapid.SampledFrom([]int{0, 1, 4, 16, 40, 1233}).Draw(t, "prefix")
		}
	}
	c.NoSeq = rapid.Bool().Draw(t, "noseq")
	ng := rapid.SampledFrom([]int{1, 2, 2, 3, 4, 8, 16}).Draw(t, "goroutines")
	kinds := opKinds[c.Object]
	for g := 0; g < ng; g++ {
		var l []Op
		for i := rapid.IntRange(1, 30/ng+3).Draw(t, "nops"); i > 0; i-- {
			l = append(l, Op{Kind: rapid.SampledFrom(kinds).Draw(t, "kind"), Arg: rapid.IntRange(0, 7).Draw(t, "arg")})
		}
		c.Lists = append(c.Lists, l)
	}
	return c
}

func digest(b []byte) string { d := sha256.Sum256(b); return fmt.Sprintf("%x", d[:8]) }

// runner executes one operation on the shared object and returns a digest of the result.
type runner func(op Op) string

func imageRunner(bin *authenticode.PECOFFBinary, signers []int, img []byte, own *failingAfter, concurrent *atomic.Bool) runner {
	ids := gen.FixedIdents()
	return func(op Op) string {
		switch op.Kind {
		case "Hash":
			// (half of the calls SHA-256, the others one of the algorithms the API also takes)
			alg := []crypto.Hash{crypto.SHA256, crypto.SHA1, crypto.SHA256, crypto.SHA384, crypto.SHA256, crypto.SHA512, crypto.SHA256, crypto.SHA512_256}[op.Arg%8]
			return digest(bin.Hash(alg))
		case "Bytes":
			return digest(bin.Bytes())
		case "Open":
			b, err := io.ReadAll(bin.Open())
			return digest(b) + fmt.Sprint(err)
		case "Signatures":
			sigs, err := bin.Signatures()
			h := sha256.New()
			for _, s := range sigs {
				h.Write(s.Certificate)
			}
			return fmt.Sprintf("%d %x %v", len(sigs), h.Sum(nil)[:8], err)
		case "Verify":
			ok, err := bin.Verify(ids[signers[op.Arg%len(signers)]].Cert)
			return fmt.Sprint(ok, err)
		case "OwnReaderFault":
			// the reader behind the shared object fails for the duration of one Hash call (sequential phase only: while
			// other goroutines are calling, their calls would legitimately fail too). The failed call must leave the
			// object as it was: everything after it is compared with a fresh twin as before.
			if own == nil || concurrent.Load() {
				return "-"
			}
			own.mu.Lock()
			own.failAt = own.calls + 1 + op.Arg%8
			own.mu.Unlock()
			// which call meets the failing reader varies: the first use of some part of the object (its certificate
			// table, say) may be exactly this one
			switch (op.Arg / 8) % 5 {
			case 0:
				bin.Hash(crypto.SHA256)
			case 1:
				bin.Verify(ids[signers[op.Arg%len(signers)]].Cert)
			case 2:
				bin.Signatures()
			case 3:
				_ = bin.Bytes()
			default:
				io.Copy(io.Discard, bin.Open())
			}
			own.mu.Lock()
			own.failAt = 0
			own.mu.Unlock()
			return "-"
		case "NeighbourFault":
			// not a call on the object at all: another object (parsed from the same bytes) whose reader starts failing
			// after Parse is hashed and verified; that failure is the neighbour's own business
			r := &failingAfter{data: img}
			if nb, err := authenticode.Parse(r); err == nil {
				r.failAt = r.calls + 2 + op.Arg%6
				nb.Hash(crypto.SHA256)
				nb.Verify(ids[signers[0]].Cert)
			}
			return "-"
		case "VerifyThroughOneVariable", "VerifyTwoCertificates":
			// a signer's certificate, then an outsider's. The caller either has two certificate objects or one variable
			// that it overwrites with the next certificate (a loop over a key ring that decodes into the same value):
			// the answers depend on what the certificate is at the time of the call, not on which object holds it
			first, second := ids[signers[op.Arg%len(signers)]].Cert, ids[7].Cert
			if op.Kind == "VerifyTwoCertificates" {
				ok1, err1 := bin.Verify(first)
				ok2, err2 := bin.Verify(second)
				return fmt.Sprint(ok1, err1, ok2, err2)
			}
			slot := *first
			ok1, err1 := bin.Verify(&slot)
			slot = *second
			ok2, err2 := bin.Verify(&slot)
			return fmt.Sprint(ok1, err1, ok2, err2)
		case "VerifyTwin":
			// same issuer and serial as a signer, another key: reaches the signature check and fails there
			tw, terr := gen.Twin(ids[signers[op.Arg%len(signers)]], 5)
			if terr != nil {
				return "twin: " + terr.Error()
			}
			ok, err := bin.Verify(tw.Cert)
			return fmt.Sprint(ok, err)
		default:
			ok, err := bin.Verify(ids[7].Cert)
			return fmt.Sprint(ok, err)
		}
	}
}

// failingAfter is a ReaderAt over data whose failAt-th and later calls fail (0 = never).
type failingAfter struct {
	data   []byte
	mu     sync.Mutex
	calls  int
	failAt int
}

func (f *failingAfter) ReadAt(p []byte, off int64) (int, error) {
	f.mu.Lock()
	f.calls++
	fail := f.failAt > 0 && f.calls >= f.failAt
	f.mu.Unlock()
	if fail {
		return 0, errors.New("verif: injected read failure of the neighbour")
	}
	if off >= int64(len(f.data)) {
		return 0, io.EOF
	}
	n := copy(p, f.data[off:])
	if n < len(p) {
		return n, io.EOF
	}
	return n, nil
}

func dbRunner(db *signature.SignatureDatabase) runner {
	flat := []signature.SignatureData{}
	types := []int{}
	for li, l := range *db {
		for _, s := range l.Signatures {
			flat = append(flat, s)
			types = append(types, li)
		}
	}
	return func(op Op) string {
		switch op.Kind {
		case "Bytes":
			return digest(db.Bytes())
		case "Marshal":
			return marshalled(db.Marshal)
		case "ListBytes":
			if len(*db) == 0 {
				return "-"
			}
			return digest((*db)[op.Arg%len(*db)].Bytes())
		case "SigDataExists", "BytesExists":
			if len(flat) == 0 {
				return fmt.Sprint(db.BytesExists(adapt.Lib(esl.SHA256), adapt.Lib(gen.Owners[0]), make([]byte, 32)))
			}
			i := op.Arg % len(flat)
			ty := (*db)[types[i]].SignatureType
			if op.Kind == "SigDataExists" {
				return fmt.Sprint(db.SigDataExists(ty, &flat[i]))
			}
			return fmt.Sprint(db.BytesExists(ty, flat[i].Owner, flat[i].Data))
		case "ExistsSpread", "ExistsAbsent":
			// a query list the caller built: one entry of every list of the type (so no single list answers it),
			// for ExistsAbsent followed by an entry the database does not hold
			if len(*db) == 0 {
				return "-"
			}
			ty := (*db)[op.Arg%len(*db)].SignatureType
			q := signature.NewSignatureList(ty)
			for _, l := range *db {
				if l.SignatureType == ty && len(l.Signatures) > 0 {
					s := l.Signatures[(op.Arg/7)%len(l.Signatures)]
					q.Signatures = append(q.Signatures, signature.SignatureData{Owner: s.Owner, Data: append([]byte{}, s.Data...)})
				}
			}
			if op.Kind == "ExistsAbsent" {
				q.Signatures = append(q.Signatures, signature.SignatureData{Owner: adapt.Lib(gen.Owners[0]), Data: []byte("an entry that is in no list of the database")})
			}
			return fmt.Sprint(db.Exists(ty, q), len(q.Signatures))
		default:
			if len(*db) == 0 {
				return "-"
			}
			l := (*db)[op.Arg%len(*db)]
			return fmt.Sprint(db.Exists(l.SignatureType, l))
		}
	}
}

// marshalled encodes into a buffer of the caller's and then does with that buffer what a caller may do with its
// own memory: overwrite the bytes it got, reset the buffer and use it for something else. The buffer belongs to the
// caller; none of this may reach the object that was encoded.
func marshalled(marshal func(*bytes.Buffer)) string {
	var b bytes.Buffer
	marshal(&b)
	out := b.Bytes()
	d := digest(out)
	for i := range out {
		out[i] ^= 0xa5
	}
	b.Reset()
	b.WriteString("the caller reuses its buffer for something else")
	return d
}

func checkCase(c Case) error {
	if len(c.Lists) == 0 {
		return fmt.Errorf("bad case")
	}
	id := gen.FixedIdents()[c.Ident%4]
	// build the shared object and an independent twin for the baseline
	var concurrentPhase atomic.Bool
	shared := false
	build := func() (runner, func() string, error) {
		switch c.Object {
		case "image":
			if len(c.Signers) == 0 {
				return nil, nil, fmt.Errorf("bad case: no signers")
			}
			own := &failingAfter{data: c.Img}
			bin, err := authenticode.Parse(own)
			if err != nil {
				return nil, nil, fmt.Errorf("bad case: %v", err)
			}
			if shared && len(c.Img)%3 != 0 {
				// the very first call on the shared object after Parse meets a reader that is failing for the moment (the
				// twins it is compared with never see a fault): whatever that call set up or gave up on, the calls that
				// follow, with the reader working again, must answer like a fresh object
				own.mu.Lock()
				own.failAt = own.calls + 1
				own.mu.Unlock()
				switch len(c.Img) % 5 {
				case 0:
					bin.Hash(crypto.SHA256)
				case 1:
					bin.Verify(gen.FixedIdents()[c.Signers[0]%len(gen.FixedIdents())].Cert)
				case 2:
					bin.Signatures()
				case 3:
					_ = bin.Bytes()
				default:
					io.Copy(io.Discard, bin.Open())
				}
				own.mu.Lock()
				own.failAt = 0
				own.mu.Unlock()
				hx.Class("image_first_call_meets_a_failing_reader")
			}
			return imageRunner(bin, c.Signers, c.Img, own, &concurrentPhase), func() string { return digest(bin.Bytes()) + digest(bin.Hash(crypto.SHA256)) }, nil
		case "database":
			if shared && c.Reuse > 0 {
				// the way the variable layer decodes: from a bytes.Buffer the caller owns and goes on using. The buffer held
				// other bytes in front (a descriptor, say); afterwards it is reset and the database is encoded into it.
				buf := bytes.NewBuffer(append(make([]byte, c.Reuse-1), c.DB...))
				buf.Next(c.Reuse - 1)
				var db signature.SignatureDatabase
				if err := db.Unmarshal(buf); err != nil {
					return nil, nil, fmt.Errorf("bad case: %v", err)
				}
				buf.Reset()
				db.Marshal(buf)
				if !bytes.Equal(buf.Bytes(), c.DB) {
					return nil, nil, fmt.Errorf("database: decoded from a buffer and encoded into the same (reset) buffer, it is %s, the stream was %s", digest(buf.Bytes()), digest(c.DB))
				}
				hx.Class("database_decoded_from_a_buffer_the_caller_reuses")
				return dbRunner(&db), func() string { return digest(db.Bytes()) }, nil
			}
			db, err := signature.ReadSignatureDatabase(bytes.NewReader(c.DB))
			if err != nil {
				return nil, nil, fmt.Errorf("bad case: %v", err)
			}
			return dbRunner(&db), func() string { return digest(db.Bytes()) }, nil
		default:
			db, err := signature.ReadSignatureDatabase(bytes.NewReader(c.DB))
			if err != nil {
				return nil, nil, fmt.Errorf("bad case: %v", err)
			}
			return nil, nil, fmt.Errorf("unreachable %v", db)
		}
	}
	var run runner
	var final func() string
	var baseline map[Op]string
	mkBaseline := func(r runner) map[Op]string {
		m := map[Op]string{}
		for _, l := range c.Lists {
			for _, op := range l {
				if _, ok := m[op]; !ok {
					m[op] = r(op)
				}
			}
		}
		return m
	}
	switch c.Object {
	case "image", "database":
		// every distinct call is made once on its own freshly built twin object
		baseline = map[Op]string{}
		for _, l := range c.Lists {
			for _, op := range l {
				if _, ok := baseline[op]; ok {
					continue
				}
				twin, _, err := build()
				if err != nil {
					return err
				}
				if op.Kind == "VerifyThroughOneVariable" {
					// the reference for the reused variable is the same pair of questions asked with two objects
					baseline[op] = twin(Op{Kind: "VerifyTwoCertificates", Arg: op.Arg})
					continue
				}
				baseline[op] = twin(op)
			}
		}
		var err error
		shared = true
		run, final, err = build()
		if err != nil {
			return err
		}
	default:
		// one signed update, decoded once: the value is fixed, the baseline is computed on copies of its bytes
		db, err := signature.ReadSignatureDatabase(bytes.NewReader(c.DB))
		if err != nil {
			return fmt.Errorf("bad case: %v", err)
		}
		auth, m, err := signature.SignEFIVariable(efivar.Db, &db, id.Priv(), id.Cert)
		if err != nil {
			return fmt.Errorf("SignEFIVariable: %v", err)
		}
		want := append([]byte{}, m.Bytes()...)
		if c.Object == "signed_update" {
			run = func(op Op) string {
				if op.Kind == "Marshal" {
					return marshalled(m.Marshal)
				}
				return digest(m.Bytes())
			}
			baseline = map[Op]string{}
			for _, l := range c.Lists {
				for _, op := range l {
					baseline[op] = digest(want)
				}
			}
			final = func() string { return digest(m.Bytes()) }
		} else {
			var ab bytes.Buffer
			auth.Marshal(&ab)
			dec, err := signature.ReadEFIVariableAuthencation2(bytes.NewReader(want))
			if err != nil {
				return fmt.Errorf("decoding the produced descriptor: %v", err)
			}
			mk := func(a *signature.EFIVariableAuthentication2) runner {
				return func(op Op) string {
					switch op.Kind {
					case "Marshal":
						return marshalled(a.Marshal)
					case "Verify":
						ok, err := a.Verify(id.Cert)
						return fmt.Sprint(ok, err)
					case "VerifyTwin":
						tw, terr := gen.Twin(id, 5)
						if terr != nil {
							return "twin: " + terr.Error()
						}
						ok, err := a.Verify(tw.Cert)
						return fmt.Sprint(ok, err)
					default:
						ok, err := a.Verify(gen.FixedIdents()[7].Cert)
						return fmt.Sprint(ok, err)
					}
				}
			}
			twin, _ := signature.ReadEFIVariableAuthencation2(bytes.NewReader(want))
			baseline = mkBaseline(mk(twin))
			run = mk(dec)
			final = func() string { var b bytes.Buffer; dec.Marshal(&b); return digest(b.Bytes()) }
			if baseline[Op{Kind: "Marshal"}] != "" && baseline[Op{Kind: "Marshal"}] != digest(ab.Bytes()) {
				return fmt.Errorf("decoded descriptor encodes differently from the produced one")
			}
		}
	}
	finalWant := final()
	// a bystander image (length not a multiple of 8, so it carries padding) that nobody touches must not change either
	var bystander *authenticode.PECOFFBinary
	var bystanderWant string
	if b, ok := hx.RepoFile("tests/data/binary/test.pecoff"); ok && len(b) > 100 {
		if bp, err := authenticode.Parse(bytes.NewReader(b[:len(b)-3])); err == nil {
			bystander = bp
			bystanderWant = digest(bp.Bytes()) + digest(bp.Hash(crypto.SHA256))
		}
	}

	// classification
	hx.Class("object/" + c.Object)
	hx.Class(fmt.Sprintf("goroutines/%d", len(c.Lists)))
	repeatAfterOther := false
	for _, l := range c.Lists {
		seen := map[string]bool{}
		last := ""
		for _, op := range l {
			if seen[op.Kind] && last != op.Kind {
				repeatAfterOther = true
			}
			seen[op.Kind] = true
			last = op.Kind
		}
	}
	if repeatAfterOther || len(c.Lists) >= 2 {
		hx.NonTrivial([]byte(c.Object), c.Img, c.DB, []byte(fmt.Sprint(c.Lists)))
		if hx.WantSample() && len(c.Img)+len(c.DB) < 1500 {
			hx.Sample(c)
		}
	}

	if c.NoSeq {
		hx.Class("first_calls_made_concurrently")
	}
	if c.BadTail {
		hx.Class("image_with_malformed_trailing_entry")
	}
	// sequential repetition on the shared object
	for i, op := range c.Lists[0] {
		if c.NoSeq && len(c.Lists) >= 2 {
			break
		}
		if got := run(op); got != baseline[op] {
			return fmt.Errorf("%s: sequential call %d (%s/%d) returned %s, the same call on a fresh twin object returned %s", c.Object, i, op.Kind, op.Arg, got, baseline[op])
		}
	}
	// concurrent calls on the shared object
	if len(c.Lists) >= 2 {
		concurrentPhase.Store(true)
		var wg sync.WaitGroup
		start := make(chan struct{})
		errs := make(chan error, len(c.Lists))
		for g, l := range c.Lists {
			wg.Add(1)
			go func(g int, l []Op) {
				defer wg.Done()
				<-start
				for i, op := range l {
					if got := run(op); got != baseline[op] {
						errs <- fmt.Errorf("%s: goroutine %d call %d (%s/%d) returned %s, a fresh twin object returned %s", c.Object, g, i, op.Kind, op.Arg, got, baseline[op])
						return
					}
				}
			}(g, l)
		}
		close(start)
		wg.Wait()
		close(errs)
		for err := range errs {
			return err
		}
	}
	if bystander != nil {
		if got := digest(bystander.Bytes()) + digest(bystander.Hash(crypto.SHA256)); got != bystanderWant {
			return fmt.Errorf("%s: an unrelated image object that was parsed before the calls changed (state shared between objects)", c.Object)
		}
		if bp, ok := hx.RepoFile("tests/data/binary/test.pecoff"); ok {
			if fresh, err := authenticode.Parse(bytes.NewReader(bp[:len(bp)-3])); err == nil {
				if got := digest(fresh.Bytes()) + digest(fresh.Hash(crypto.SHA256)); got != bystanderWant {
					return fmt.Errorf("%s: an image parsed after the calls hashes / serialises differently than the same image parsed before them (package-level state)", c.Object)
				}
			}
		}
	}
	if got := final(); got != finalWant {
		return fmt.Errorf("%s: the object changed: final encoding %s, before the calls %s", c.Object, got, finalWant)
	}
	return nil
}

var checker = hx.Checker[Case]{Property: "C19", Gen: genCase, Check: checkCase, Journal: true}

func TestC19(t *testing.T)       { checker.Rapid(t) }
func TestC19Replay(t *testing.T) { checker.Replay(t) }
func TestC19Pinned(t *testing.T) {
	fmt.Println("ORACLE-SELFCHECK-OK the oracle is the result of the same call on a freshly constructed twin object plus the Go race detector")
}
