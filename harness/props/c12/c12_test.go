// C12 — the in-memory variable store returns the last value written, for every history.
package c12

import (
	"bytes"
	"encoding/binary"
	"fmt"
	"path"
	"testing"
	"testing/fstest"
	"time"

	"pgregory.net/rapid"

	"github.com/foxboron/go-uefi/efi/attributes"
	"github.com/foxboron/go-uefi/efi/signature"
	"github.com/foxboron/go-uefi/efi/util"
	"github.com/foxboron/go-uefi/efivar"
	"github.com/foxboron/go-uefi/efivarfs"
	"github.com/foxboron/go-uefi/efivarfs/testfs"

	"verifharness/gen"
	"verifharness/hx"
	"verifharness/ref/esl"
)

var otherGUID = util.EFIGUID{Data1: 0x4a67b082, Data2: 0x0a4c, Data3: 0x41cf, Data4: [8]byte{0xb6, 0xc7, 0x44, 0x0b, 0x29, 0xbb, 0x8c, 0x4f}}

// the variables of the store: the four secure-boot ones and five ordinary ones
// (one of them shares its name with a secure-boot variable but lives under another GUID)
var vars = []efivar.Efivar{
	efivar.PK, efivar.KEK, efivar.Db, efivar.Dbx,
	{Name: "VerifOrdinary", GUID: &otherGUID, Attributes: attributes.EFI_VARIABLE_BOOTSERVICE_ACCESS | attributes.EFI_VARIABLE_RUNTIME_ACCESS},
	efivar.LoaderEntrySelected,
	{Name: "db", GUID: &otherGUID, Attributes: attributes.EFI_VARIABLE_NON_VOLATILE | attributes.EFI_VARIABLE_BOOTSERVICE_ACCESS},
	// variable names are case sensitive: another variable under the same GUID whose name differs only in letter case
	{Name: "verifordinary", GUID: &otherGUID, Attributes: attributes.EFI_VARIABLE_BOOTSERVICE_ACCESS | attributes.EFI_VARIABLE_RUNTIME_ACCESS},
	// every attribute bit the specification defines, the highest one (0x80) included
	{Name: "VerifAllAttributes", GUID: &otherGUID, Attributes: attributes.Attributes(0xff &^ uint32(attributes.EFI_VARIABLE_APPEND_WRITE))},
	// variables a firmware derives from the keys: in this store they are registers like any other, a write to PK
	// does not reach them
	efivar.SetupMode, efivar.SecureBoot,
	// a vendor's variable with a path separator in its name (any UCS-2 character is allowed in a variable name)
	{Name: "Vendor/Config", GUID: &otherGUID, Attributes: attributes.EFI_VARIABLE_NON_VOLATILE | attributes.EFI_VARIABLE_BOOTSERVICE_ACCESS},
}
var varNames = []string{"PK", "KEK", "db", "dbx", "VerifOrdinary", "LoaderEntrySelected", "db@otherGUID", "verifordinary", "VerifAllAttributes", "SetupMode", "SecureBoot", "Vendor/Config"}

func secureBoot(i int) bool { return i < 4 }

type Op struct {
	Kind  string // write | signed | signed_subset (signed update whose payload is a part of the variable's current value) | readall |
	// signed_object (SignEFIVariable, then WriteVar of the signed update) | signed_object_again (the signed update made last is written once more)
	Var   int
	Value hx.Hex
	Ident int
	Own   bool // the variable is addressed through an Efivar value the caller built itself (equal name, GUID value and attributes)
}

type Pre struct {
	Var   int
	Value hx.Hex
}

type Case struct {
	Pre   []Pre
	Ops   []Op
	TZMin int // process time zone offset from UTC in minutes (signed updates carry a timestamp)
	Split int // pre-populated store built from two overlays: 1 With(a, b), 2 With(a).With(b); the caller's maps stay the caller's
}

// dbValue draws an encodable database value: empty, 1..3 lists, entries of several sizes.
func dbValue(t *rapid.T) []byte {
	if gen.Chance(t, "hugedb", 1, 20) {
		// a revocation list as they are in the field: one list with more than a thousand hashes
		n := rapid.SampledFrom([]int{1023, 1024, 1025, 1366, 2049}).Draw(t, "hugen")
		l := esl.List{Type: esl.SHA256, Size: 48}
		seed := rapid.Uint64().Draw(t, "hugeseed") | 1
		for i := 0; i < n; i++ {
			d := make([]byte, 32)
			for j := range d {
				seed ^= seed << 13
				seed ^= seed >> 7
				seed ^= seed << 17
				d[j] = byte(seed >> 24)
			}
			l.Entries = append(l.Entries, esl.Entry{Owner: gen.Owners[i%len(gen.Owners)], Data: d})
		}
		return esl.Encode([]esl.List{l})
	}
	switch rapid.IntRange(0, 5).Draw(t, "dbkind") {
	case 0:
		return nil
	case 1:
		return esl.Encode([]esl.List{{Type: esl.SHA256, Size: 48, Entries: []esl.Entry{{Owner: gen.Owners[0], Data: gen.FillBytes(t, 32)}}}})
	default:
		ls := gen.ESLStream(3).Draw(t, "db")
		var keep []esl.List
		for _, l := range ls {
			if l.Type != esl.ExtMgm {
				keep = append(keep, l)
			}
		}
		return esl.Encode(keep)
	}
}

func rawValue(t *rapid.T) []byte {
	b := gen.SizedBytes(600, 0, 1, 3, 4, 5, 16, 23, 24, 40).Draw(t, "raw")
	if len(b) > 21 {
		b[21] = 0 // never looks like a revision 0x0200 WIN_CERTIFICATE header: plain values are not signed updates
	}
	return b
}

func genCase(t *rapid.T) Case {
	var c Case
	if rapid.Bool().Draw(t, "prepopulated") {
		for i := rapid.IntRange(1, 3).Draw(t, "npre"); i > 0; i-- {
			v := rapid.IntRange(0, len(vars)-1).Draw(t, "prevar")
			val := rawValue(t)
			if secureBoot(v) {
				val = dbValue(t)
			}
			c.Pre = append(c.Pre, Pre{Var: v, Value: val})
		}
	}
	if len(c.Pre) >= 2 {
		c.Split = rapid.IntRange(0, 2).Draw(t, "overlays")
	}
	if rapid.Bool().Draw(t, "nonutc") {
		c.TZMin = 15 * rapid.IntRange(-48, 56).Draw(t, "tzquarters")
	}
	max := 25
	if hx.Thorough() {
		max = 60
	}
	n := rapid.IntRange(1, max).Draw(t, "nops")
	for i := 0; i < n; i++ {
		// few variables so that the same one is rewritten with longer and shorter values
		v := rapid.SampledFrom([]int{0, 0, 1, 2, 2, 2, 3, 4, 4, 5, 6, 7, 7, 8, 9, 9, 10, 11, 11}).Draw(t, "var")
		op := Op{Var: v, Own: rapid.IntRange(0, 2).Draw(t, "own_efivar_value") == 0}
		switch k := rapid.IntRange(0, 9).Draw(t, "kind"); {
		case k < 5:
			op.Kind = "write"
			if secureBoot(v) && rapid.IntRange(0, 3).Draw(t, "rawtosb") != 0 {
				op.Value = dbValue(t)
			} else if secureBoot(v) {
				op.Value = rawValue(t)
			} else {
				op.Value = rawValue(t)
			}
		case k < 8 && secureBoot(v):
			op.Kind = "signed"
			op.Value = dbValue(t)
			op.Ident = rapid.IntRange(0, 3).Draw(t, "ident")
			switch rapid.IntRange(0, 5).Draw(t, "subset") {
			case 0, 1:
				op.Kind = "signed_subset" // the payload is computed from the current value when the step runs
				op.Ident = rapid.IntRange(0, 1000).Draw(t, "subsetseed")
			case 2:
				op.Kind = "signed_object"
			case 3:
				op.Kind, op.Value = "signed_object_again", nil
			}
		default:
			op.Kind = "readall"
		}
		c.Ops = append(c.Ops, op)
	}
	return c
}

type raw []byte

func (r raw) Marshal(b *bytes.Buffer) { b.Write(r) }
func (r raw) Bytes() []byte           { return r }

type spy struct{ got []byte }

func (s *spy) Unmarshal(b *bytes.Buffer) error { s.got = append([]byte{}, b.Bytes()...); return nil }

func fileName(v efivar.Efivar) string {
	return path.Join(attributes.Efivars, fmt.Sprintf("%s-%s", v.Name, v.GUID.Format()))
}

// reused receivers: one SignatureDatabase value per secure-boot variable that is read into again and again
var reused [4]signature.SignatureDatabase

func checkAll(e *efivarfs.Efivarfs, model map[int][]byte, step string) error {
	for i, v := range vars {
		want, written := model[i]
		sp := &spy{}
		err := e.GetVar(v, sp)
		if !written {
			if err == nil {
				return fmt.Errorf("%s: variable %s was never written but reads %d bytes", step, varNames[i], len(sp.got))
			}
			continue
		}
		if err != nil {
			return fmt.Errorf("%s: reading %s fails: %v (last value written has %d bytes)", step, varNames[i], err, len(want))
		}
		if !bytes.Equal(sp.got, want) {
			return fmt.Errorf("%s: %s reads %d bytes, the last value written has %d bytes (equal prefix %d)", step, varNames[i], len(sp.got), len(want), prefix(sp.got, want))
		}
		if secureBoot(i) {
			if _, derr := esl.Decode(want); derr == nil {
				// reading into a receiver that still holds the previous value replaces it
				if err := e.GetVar(v, &reused[i]); err != nil {
					return fmt.Errorf("%s: reading %s into a reused SignatureDatabase fails: %v", step, varNames[i], err)
				}
				if !bytes.Equal(reused[i].Bytes(), want) {
					return fmt.Errorf("%s: %s read into a SignatureDatabase that held an earlier value gives %d bytes, the last value written has %d", step, varNames[i], len(reused[i].Bytes()), len(want))
				}
				var db *signature.SignatureDatabase
				switch i {
				case 0:
					db, err = e.GetPK()
				case 1:
					db, err = e.GetKEK()
				case 2:
					db, err = e.Getdb()
				default:
					db, err = e.Getdbx()
				}
				if err != nil {
					return fmt.Errorf("%s: typed getter of %s fails: %v", step, varNames[i], err)
				}
				if !bytes.Equal(db.Bytes(), want) {
					return fmt.Errorf("%s: typed getter of %s returns another database (%d bytes vs %d)", step, varNames[i], len(db.Bytes()), len(want))
				}
			}
		}
	}
	return nil
}

func prefix(a, b []byte) int {
	i := 0
	for i < len(a) && i < len(b) && a[i] == b[i] {
		i++
	}
	return i
}

func checkCase(c Case) error {
	ids := gen.FixedIdents()
	model := map[int][]byte{}
	store := testfs.NewTestFS()
	if len(c.Pre) > 0 {
		m, m2 := fstest.MapFS{}, fstest.MapFS{}
		for i, p := range c.Pre {
			v := vars[p.Var%len(vars)]
			f := &fstest.MapFile{Data: append(binary.LittleEndian.AppendUint32(nil, uint32(v.Attributes)), p.Value...)}
			if c.Split != 0 && i > 0 {
				if _, dup := m[fileName(v)]; !dup {
					m2[fileName(v)] = f
				} else {
					m[fileName(v)] = f
				}
			} else {
				m[fileName(v)] = f
			}
			model[p.Var%len(vars)] = p.Value
		}
		switch {
		case c.Split == 1 && len(m2) > 0:
			store = store.With(m, m2)
		case c.Split == 2 && len(m2) > 0:
			store = store.With(m).With(m2)
		default:
			for k, f := range m2 {
				m[k] = f
			}
			m2 = nil
			store = store.With(m)
		}
		if len(m2) > 0 {
			// the fixtures are the caller's: a second store built from the first overlay alone holds that overlay's
			// variables and nothing of the other one
			hx.Class("prepopulated_from_two_overlays")
			for k := range m2 {
				if _, leaked := m[k]; leaked {
					return fmt.Errorf("building a store from two overlays put %s of the second overlay into the caller's first overlay map", k)
				}
			}
			other := testfs.NewTestFS().With(m).Open()
			for i, v := range vars {
				if _, in2 := m2[fileName(v)]; in2 {
					if err := other.GetVar(v, &spy{}); err == nil {
						return fmt.Errorf("a second store built from the first overlay alone reads %s, which only the other store's second overlay holds", varNames[i])
					}
				}
			}
		}
	}
	if c.TZMin != 0 {
		saved := time.Local
		time.Local = time.FixedZone("verif", c.TZMin*60)
		defer func() { time.Local = saved }()
		hx.Class("process_time_zone_not_utc")
	}
	e := store.Open()
	reused = [4]signature.SignatureDatabase{}
	if err := checkAll(e, model, "initially"); err != nil {
		return err
	}
	longest := map[int]int{}
	for i, v := range model {
		longest[i] = len(v)
	}
	shrink, mixed, interleaved := false, false, false
	lastKind := map[int]string{}
	lastVar := -1
	// the signed update made last with SignEFIVariable: a value the caller keeps and may write again (re-enrolment)
	var keptUpdate efivar.Marshallable
	var keptVar int
	var keptPayload []byte
	for i, op := range c.Ops {
		vi := op.Var % len(vars)
		if op.Kind == "signed_object_again" {
			if keptUpdate == nil {
				continue
			}
			vi = keptVar
		}
		v := vars[vi]
		if op.Own {
			// a variable is identified by its name and GUID value, not by which Efivar value or GUID pointer names it
			g := util.StringToGUID(v.GUID.Format())
			v = efivar.Efivar{Name: string(append([]byte{}, v.Name...)), GUID: g, Attributes: v.Attributes}
			hx.Class("variable_addressed_through_a_caller_built_efivar_value")
		}
		step := fmt.Sprintf("after step %d (%s %s, %d bytes)", i, op.Kind, varNames[vi], len(op.Value))
		switch op.Kind {
		case "write":
			var m efivar.Marshallable = raw(op.Value)
			if secureBoot(vi) {
				if db, err := signature.ReadSignatureDatabase(bytes.NewReader(op.Value)); err == nil && bytes.Equal(db.Bytes(), op.Value) {
					m = &db
				}
			}
			if err := e.WriteVar(v, m); err != nil {
				return fmt.Errorf("%s: WriteVar fails: %v", step, err)
			}
		case "signed_subset":
			// replace the variable by a proper part of its current value (one list, or one entry of one list)
			cur, derr := esl.Decode(model[vi])
			if derr != nil || len(esl.Flatten(cur)) < 2 {
				continue
			}
			var part []esl.List
			l := cur[op.Ident%len(cur)]
			if len(l.Entries) == 0 {
				continue
			}
			if len(cur) > 1 && op.Ident%2 == 0 {
				part = []esl.List{l}
			} else {
				part = []esl.List{{Type: l.Type, Size: l.Size, Header: l.Header, Entries: []esl.Entry{l.Entries[op.Ident%len(l.Entries)]}}}
			}
			op.Value = esl.Encode(part)
			if bytes.Equal(op.Value, model[vi]) {
				continue
			}
			hx.Class("signed_update_with_a_subset_of_the_current_value")
			db, err := signature.ReadSignatureDatabase(bytes.NewReader(op.Value))
			if err != nil {
				return fmt.Errorf("bad case: subset payload: %v", err)
			}
			id := ids[op.Ident%4]
			if err := e.WriteSignedUpdate(v, &db, id.Priv(), id.Cert); err != nil {
				return fmt.Errorf("%s: WriteSignedUpdate fails: %v", step, err)
			}
			step = fmt.Sprintf("after step %d (signed update of %s with a %d-byte part of its %d-byte value)", i, varNames[vi], len(op.Value), len(model[vi]))
		case "signed":
			db, err := signature.ReadSignatureDatabase(bytes.NewReader(op.Value))
			if err != nil {
				return fmt.Errorf("bad case: signed payload is not a database: %v", err)
			}
			id := ids[op.Ident%4]
			if err := e.WriteSignedUpdate(v, &db, id.Priv(), id.Cert); err != nil {
				return fmt.Errorf("%s: WriteSignedUpdate fails: %v", step, err)
			}
		case "signed_object", "signed_object_again":
			if op.Kind == "signed_object" {
				db, err := signature.ReadSignatureDatabase(bytes.NewReader(op.Value))
				if err != nil {
					return fmt.Errorf("bad case: signed payload is not a database: %v", err)
				}
				id := ids[op.Ident%4]
				_, m, err := signature.SignEFIVariable(v, &db, id.Priv(), id.Cert)
				if err != nil {
					return fmt.Errorf("%s: SignEFIVariable fails: %v", step, err)
				}
				keptUpdate, keptVar, keptPayload = m, vi, append([]byte{}, op.Value...)
			} else {
				op.Value = keptPayload
				step = fmt.Sprintf("after step %d (the signed update of %s made earlier, %d-byte payload, written again)", i, varNames[vi], len(op.Value))
				hx.Class("signed_update_value_written_a_second_time")
			}
			if err := e.WriteVar(v, keptUpdate); err != nil {
				return fmt.Errorf("%s: WriteVar of a signed update fails: %v", step, err)
			}
		case "readall":
			if err := checkAll(e, model, step); err != nil {
				return err
			}
			continue
		default:
			return fmt.Errorf("bad case: op %q", op.Kind)
		}
		if len(op.Value) < longest[vi] {
			shrink = true
			hx.Class("write_shorter_than_an_earlier_value")
		}
		if len(op.Value) > longest[vi] {
			longest[vi] = len(op.Value)
		}
		if k, ok := lastKind[vi]; ok && k != op.Kind {
			mixed = true
		}
		if lastVar >= 0 && lastVar != vi {
			interleaved = true
		}
		lastKind[vi], lastVar = op.Kind, vi
		model[vi] = op.Value
		hx.Class("op/" + op.Kind)
		if err := checkAll(e, model, step); err != nil {
			return err
		}
	}
	if shrink || mixed || interleaved {
		hx.NonTrivial([]byte(fmt.Sprint(c.Pre)), []byte(fmt.Sprint(c.Ops)))
		if hx.WantSample() && len(c.Ops) <= 6 {
			hx.Sample(c)
		}
	}
	if mixed {
		hx.Class("signed_and_plain_writes_to_one_variable")
	}
	if len(c.Pre) > 0 {
		hx.Class("prepopulated_store")
	}
	return nil
}

var checker = hx.Checker[Case]{Property: "C12", Gen: genCase, Check: checkCase, Journal: true}

func TestC12(t *testing.T)       { checker.Rapid(t) }
func TestC12Replay(t *testing.T) { checker.Replay(t) }
func TestC12Pinned(t *testing.T) {
	fmt.Println("ORACLE-SELFCHECK-OK the model is a map from variable to the last value written (no reference implementation to validate)")
}
