// C03 — signing yields a well-formed signed image that firmware-style checks accept.
package c03

import (
	"bytes"
	"errors"
	"io"
	"crypto"
	"crypto/rsa"
	"crypto/x509"
	"fmt"
	"testing"

	"pgregory.net/rapid"

	"github.com/foxboron/go-uefi/authenticode"

	"verifharness/gen"
	"verifharness/hx"
	"verifharness/ref/acode"
	"verifharness/ref/pehash"
	"verifharness/seeds"
)

type Step struct {
	Ident   int  // index into the fixed identities (one per pool key: 2048/3072/4096 bits); 8 = the case's generated identity
	Reparse bool // serialise and re-parse the image before this signature
	Before  int  // read-only calls made on the object just before signing, bits: 1 Hash(SHA-1), 2 Hash(SHA-384), 4 Hash(SHA-512), 8 Bytes, 16 Signatures, 32 Verify, 64 Hash(SHA-512/256)
}

type Case struct {
	Img       hx.Hex
	Source    string
	Steps     []Step
	Outsider  int  // identity that never signs
	FinalPass bool // re-parse once more at the end before the final verification round
	ExtraKey  int  // a generated identity (name, serial and issuer vary, so signature blob lengths cover every value mod 8)
	ExtraCert hx.Hex
}

var fixtureImages = []string{
	"tests/data/binary/test.pecoff",
	"tests/data/binary/HelloWorld.efi",
	"tests/data/binary/HelloWorld.efi.signed",
	"authenticode/testdata/test.pecoff.signed",
	"tests/data/binary/linuxx64.efi.stub",
}

func genCase(t *rapid.T) Case {
	var c Case
	if rapid.IntRange(0, 4).Draw(t, "fixture") == 0 {
		var have []string
		for _, f := range fixtureImages {
			if _, ok := hx.RepoFile(f); ok {
				have = append(have, f)
			}
		}
		if len(have) > 0 {
			f := rapid.SampledFrom(have).Draw(t, "which")
			b, _ := hx.RepoFile(f)
			c.Img, c.Source = b, "fixture:"+f
		}
	}
	if c.Img == nil {
		o := gen.DefaultPE
		if rapid.Bool().Draw(t, "small") {
			o = gen.SmallPE
		}
		o.Table = false
		c.Img, c.Source = gen.PEImage(o).Draw(t, "img"), "generated"
	}
	extra := gen.Ident(true).Draw(t, "extra_identity")
	c.ExtraKey, c.ExtraCert = extra.Key, extra.Cert.Raw
	n := rapid.SampledFrom([]int{1, 1, 2, 2, 3, 4}).Draw(t, "nsig")
	used := map[int]bool{}
	for i := 0; i < n; i++ {
		id := rapid.SampledFrom([]int{0, 1, 2, 3, 0, 1, 2, 3, 4, 6}).Draw(t, "ident")
		if hx.Thorough() {
			id = rapid.IntRange(0, 7).Draw(t, "ident2")
		}
		if rapid.IntRange(0, 2).Draw(t, "use_generated_identity") == 0 {
			id = 8
		}
		used[id] = true
		c.Steps = append(c.Steps, Step{Ident: id, Reparse: i > 0 && rapid.Bool().Draw(t, "reparse"), Before: rapid.SampledFrom([]int{0, 0, 0, 1, 2, 4, 8, 16, 32, 64, 3, 24, 127}).Draw(t, "calls_before_signing")})
	}
	for o := 7; o >= 0; o-- {
		if !used[o] {
			c.Outsider = o
			break
		}
	}
	c.FinalPass = rapid.Bool().Draw(t, "finalpass")
	return c
}

func libDigest(p *authenticode.PECOFFBinary) []byte { return p.Hash(crypto.SHA256) }


// scribblePadding uses the exported padding helper the way a caller building its own tables does - asks for padding
// and then writes into what it got - before the library is handed an image: what PaddingBytes returns belongs to the
// caller, so nothing the library computes afterwards may depend on it.
func scribblePadding(v int) {
	for _, n := range []int{v, v + 1, v + 3, v + 5, 1} {
		for _, bs := range []int{8, 512} {
			b, k := authenticode.PaddingBytes(n, bs)
			for i := range b {
				b[i] = 0xff - byte(i)
			}
			_ = k
		}
	}
}


// refusingSigner is a key that cannot be used right now (a token that is locked, an agent that went away): it
// names the right public key and every Sign call fails.
type refusingSigner struct{ pub crypto.PublicKey }

func (r refusingSigner) Public() crypto.PublicKey { return r.pub }
func (r refusingSigner) Sign(io.Reader, []byte, crypto.SignerOpts) ([]byte, error) {
	return nil, errors.New("signer refuses")
}

func checkCase(c Case) error {
	ids := append([]gen.Identity{}, gen.FixedIdents()...)
	extra, err := gen.ParseIdent(c.ExtraKey, c.ExtraCert)
	if err != nil {
		return fmt.Errorf("bad case: %v", err)
	}
	ids = append(ids, extra)
	orig := []byte(c.Img)
	l0, err := pehash.Parse(orig)
	if err != nil {
		return fmt.Errorf("bad case: %v", err)
	}
	if err := l0.WellFormed(orig); err != nil {
		return fmt.Errorf("bad case: %v", err)
	}
	h0, err := l0.Hash(orig)
	if err != nil {
		return fmt.Errorf("bad case: %v", err)
	}
	preEntries, _, err := acode.Table(orig)
	if err != nil {
		return fmt.Errorf("bad case: input table: %v", err)
	}
	content0, _, _ := acode.Content(orig)
	// certificates that signed the input already (third-party fixtures)
	var preCerts []*x509.Certificate
	for _, f := range seeds.Fixtures() {
		if f.Cert == nil {
			continue
		}
		if ok, _ := acode.VerifyImage(orig, f.Cert); ok {
			preCerts = append(preCerts, f.Cert)
			break
		}
	}

	scribblePadding(len(orig))
	bin, err := authenticode.Parse(bytes.NewReader(orig))
	if err != nil {
		return fmt.Errorf("Parse rejects a well-formed image: %v", err)
	}
	bystander, ok := hx.RepoFile("tests/data/binary/test.pecoff")
	if !ok {
		bystander = orig
	}
	before := libDigest(bin)
	if !bytes.Equal(before, h0.Digest) {
		return fmt.Errorf("digest before signing %x differs from the specification digest %x", before, h0.Digest)
	}
	prev := orig
	var signers []*x509.Certificate
	reparsed := false
	for i, st := range c.Steps {
		id := ids[st.Ident%(len(ids)-1)]
		if st.Ident == 8 {
			id = extra // the case's generated identity
			hx.Class("signer_is_the_generated_identity")
		}
		if id.Cert.Issuer.String() != id.Cert.Subject.String() {
			hx.Class("signer_certificate_issued_by_a_ca")
		}
		if st.Reparse {
			bin, err = authenticode.Parse(bytes.NewReader(prev))
			if err != nil {
				return fmt.Errorf("step %d: re-parsing the signed output fails: %v", i, err)
			}
			reparsed = true
		}
		if st.Before != 0 {
			// what a caller may do with the object first: none of it is an input of Sign
			for _, ba := range []struct {
				bit int
				alg crypto.Hash
			}{{1, crypto.SHA1}, {2, crypto.SHA384}, {4, crypto.SHA512}, {64, crypto.SHA512_256}} {
				if st.Before&ba.bit != 0 {
					bin.Hash(ba.alg)
				}
			}
			if st.Before&8 != 0 {
				_ = bin.Bytes()
			}
			if st.Before&16 != 0 {
				bin.Signatures()
			}
			if st.Before&32 != 0 {
				bin.Verify(id.Cert)
			}
			hx.Class("read_only_calls_on_the_object_before_signing")
		}
		if (len(orig)+i)%3 == 0 {
			// a first attempt with a key that refuses: the attempt that follows on the same object must not be affected
			if _, ferr := bin.Sign(refusingSigner{id.Priv().Public()}, id.Cert); ferr != nil {
				hx.Class("failed_sign_attempt_first")
			}
		}
		sig, err := bin.Sign(id.Priv(), id.Cert)
		if err != nil {
			return fmt.Errorf("step %d: Sign: %v", i, err)
		}
		signers = append(signers, id.Cert)
		// a bystander image is signed in between: objects must not share state
		if by, err := authenticode.Parse(bytes.NewReader(bystander)); err == nil {
			by.Sign(ids[(st.Ident+1)%4].Priv(), ids[(st.Ident+1)%4].Cert)
			_ = by.Bytes()
		}
		out := bin.Bytes()
		step := fmt.Sprintf("after signature %d (%d-bit key, reparse=%v, input %s %d bytes)", i+1, id.Priv().N.BitLen(), st.Reparse, c.Source, len(orig))

		// --- independent reader
		l, err := pehash.Parse(out)
		if err != nil {
			return fmt.Errorf("%s: output unparsable: %v", step, err)
		}
		// every original byte is kept, except the directory entry
		if len(out) < len(content0) {
			return fmt.Errorf("%s: output (%d bytes) shorter than the image content (%d)", step, len(out), len(content0))
		}
		for p := range content0 {
			if p >= l0.DD4Off && p < l0.DD4Off+8 {
				continue
			}
			if out[p] != content0[p] {
				return fmt.Errorf("%s: original byte %d changed (%#x -> %#x)", step, p, content0[p], out[p])
			}
		}
		// zero padding to 8, table 8-aligned, directory entry spans exactly to end of file
		tableOff := (len(content0) + 7) &^ 7
		for p := len(content0); p < tableOff; p++ {
			if p >= len(out) || out[p] != 0 {
				return fmt.Errorf("%s: padding byte %d is not zero", step, p)
			}
		}
		if int(l.CertVA) != tableOff || l.CertVA%8 != 0 {
			return fmt.Errorf("%s: directory entry address %d, the table must start at the 8-aligned end of the content %d", step, l.CertVA, tableOff)
		}
		if uint64(l.CertVA)+uint64(l.CertSize) != uint64(len(out)) {
			return fmt.Errorf("%s: directory entry [%d,+%d) does not span exactly to end of file %d", step, l.CertVA, l.CertSize, len(out))
		}
		if err := l.WellFormed(out); err != nil {
			return fmt.Errorf("%s: output is not a well-formed signed image: %v", step, err)
		}
		entries, err := acode.ReadTable(out[l.CertVA:])
		if err != nil {
			return fmt.Errorf("%s: certificate table does not split into 8-aligned WIN_CERTIFICATE entries: %v", step, err)
		}
		if len(entries) != len(preEntries)+i+1 {
			return fmt.Errorf("%s: table has %d entries, expected %d", step, len(entries), len(preEntries)+i+1)
		}
		// earlier entries are unchanged
		pl, _ := pehash.Parse(prev)
		if pl != nil && pl.CertSize != 0 {
			if !bytes.HasPrefix(out[l.CertVA:], prev[pl.CertVA:]) {
				return fmt.Errorf("%s: earlier table entries were modified", step)
			}
		}
		for k, e := range entries[len(preEntries):] {
			if e.Revision != 0x0200 || e.Type != 0x0002 {
				return fmt.Errorf("%s: entry %d has revision %#x type %#x, want 0x0200 / 0x0002", step, k, e.Revision, e.Type)
			}
			for _, pb := range e.Padding {
				if pb != 0 {
					return fmt.Errorf("%s: entry %d padding is not zero", step, k)
				}
			}
		}
		last := entries[len(entries)-1]
		if !bytes.Equal(last.Blob, sig) {
			return fmt.Errorf("%s: Sign returned a signature that is not the last table entry (dwLength %d, returned %d bytes)", step, last.Length, len(sig))
		}
		// embedded digest == specification digest of the output file == digest before signing
		hOut, err := l.Hash(out)
		if err != nil {
			return fmt.Errorf("%s: output cannot be hashed: %v", step, err)
		}
		emb, err := acode.SpcDigest(last.Blob)
		if err != nil {
			return fmt.Errorf("%s: new entry is not an Authenticode signature: %v", step, err)
		}
		if !bytes.Equal(emb, hOut.Digest) {
			return fmt.Errorf("%s: embedded digest %x is not the specification digest of the output file %x", step, emb, hOut.Digest)
		}
		if !bytes.Equal(hOut.Digest, h0.Digest) {
			return fmt.Errorf("%s: digest of the output %x differs from the digest before signing %x", step, hOut.Digest, h0.Digest)
		}
		// --- the library's own view of the output
		for pass := 0; pass < 2; pass++ {
			view := bin
			if pass == 1 {
				view, err = authenticode.Parse(bytes.NewReader(out))
				if err != nil {
					return fmt.Errorf("%s: Parse of the output fails: %v", step, err)
				}
			}
			if d := libDigest(view); !bytes.Equal(d, h0.Digest) {
				return fmt.Errorf("%s (pass %d): Hash reports %x, before signing %x", step, pass, d, h0.Digest)
			}
			sigs, err := view.Signatures()
			if err != nil || len(sigs) != len(entries) {
				return fmt.Errorf("%s (pass %d): Signatures() = %d entries, %v; table has %d", step, pass, len(sigs), err, len(entries))
			}
			for k, sc := range append(append([]*x509.Certificate{}, preCerts...), signers...) {
				ok, err := view.Verify(sc)
				if !ok || err != nil {
					return fmt.Errorf("%s (pass %d): Verify against signer %d fails: %v, %v", step, pass, k, ok, err)
				}
				if rok, why := acode.VerifyImage(out, sc); !rok {
					return fmt.Errorf("%s: reference firmware-style verification rejects signer %d: %s", step, k, why)
				}
			}
			outsider := ids[c.Outsider%8].Cert
			if ok, err := view.Verify(outsider); ok && err == nil {
				return fmt.Errorf("%s (pass %d): Verify succeeds for a certificate that never signed", step, pass)
			}
			// ... nor for a certificate that merely carries the newest signer's issuer and serial: on another RSA key,
			// or on a key that is no RSA key at all
			if len(signers) > 0 && pass == 1 {
				sc := signers[len(signers)-1]
				other := 0
				if pk, isRSA := sc.PublicKey.(*rsa.PublicKey); isRSA && pk.N.Cmp(gen.Keys()[0].N) == 0 {
					other = 1
				}
				if tw, terr := gen.Twin(gen.Identity{Key: -1, Cert: sc}, other); terr == nil {
					if ok, err := view.Verify(tw.Cert); ok && err == nil {
						return fmt.Errorf("%s (pass %d): Verify succeeds for a certificate with the signer's issuer and serial but another key, which never signed", step, pass)
					}
				}
				if at, terr := gen.AlienTwin(gen.Identity{Key: -1, Cert: sc}, len(out)); terr == nil {
					if ok, err := view.Verify(at); ok && err == nil {
						return fmt.Errorf("%s (pass %d): Verify succeeds for a certificate with the signer's issuer and serial on a key that is not an RSA key", step, pass)
					}
				}
			}
		}
		prev = out
	}
	if len(c.Steps) >= 2 {
		hx.Class("history/multi_signature")
	}
	if len(content0)%8 != 0 {
		hx.Class("input/length_not_multiple_of_8")
	}
	if len(preEntries) > 0 {
		hx.Class("input/pre_signed")
	}
	if reparsed {
		hx.Class("history/reparse_between_signatures")
	}
	hx.Class("source/" + c.Source)
	if len(c.Steps) >= 2 || len(content0)%8 != 0 || len(preEntries) > 0 || reparsed {
		hx.NonTrivial(c.Img, []byte(fmt.Sprint(c.Steps)))
		if hx.WantSample() && len(c.Img) < 1200 {
			hx.Sample(c)
		}
	}
	return nil
}

var checker = hx.Checker[Case]{Property: "C03", Gen: genCase, Check: checkCase}

func TestC03(t *testing.T)       { checker.Rapid(t) }
func TestC03Replay(t *testing.T) { checker.Replay(t) }

// TestC03Pinned: the independent reader and the reference verifier must accept
// the sbsign-signed fixtures (third-party producer).
func TestC03Pinned(t *testing.T) {
	n := 0
	for _, f := range []string{"authenticode/testdata/test.pecoff.signed", "tests/data/binary/HelloWorld.efi.signed"} {
		b, ok := hx.RepoFile(f)
		if !ok {
			continue
		}
		es, l, err := acode.Table(b)
		if err != nil || len(es) == 0 {
			t.Fatalf("ORACLE-SELFCHECK-FAIL independent reader cannot split the table of %s: %v", f, err)
		}
		h, _ := l.Hash(b)
		d, err := acode.SpcDigest(es[0].Blob)
		if err != nil || !bytes.Equal(d, h.Digest) {
			t.Fatalf("ORACLE-SELFCHECK-FAIL embedded digest of %s is not the reference digest: %v", f, err)
		}
		for _, fx := range seeds.Fixtures() {
			if fx.Cert != nil && bytes.Equal(fx.Blob, es[0].Blob) {
				if ok, why := acode.VerifyImage(b, fx.Cert); !ok {
					t.Fatalf("ORACLE-SELFCHECK-FAIL reference verification rejects sbsign-signed %s: %s", f, why)
				}
				n++
			}
		}
	}
	fmt.Printf("ORACLE-SELFCHECK-OK independent table reader + reference verifier accept %d sbsign-signed fixtures\n", n)
}
