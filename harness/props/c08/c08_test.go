// C08 — signature-database decoding never silently drops, truncates or misreads input.
package c08

import (
	"bytes"
	"encoding/binary"
	"errors"
	"fmt"
	"strings"
	"testing"
	"testing/fstest"

	"github.com/spf13/afero"
	"pgregory.net/rapid"

	"github.com/foxboron/go-uefi/efi"
	"github.com/foxboron/go-uefi/efi/attributes"
	efifs "github.com/foxboron/go-uefi/efi/fs"
	"github.com/foxboron/go-uefi/efi/signature"
	"github.com/foxboron/go-uefi/efivarfs/testfs"

	"verifharness/adapt"
	"verifharness/gen"
	"verifharness/hx"
	"verifharness/ref/authvar"
	"verifharness/ref/esl"
	"verifharness/ref/guid"
)

// Mut is one mutation of a well-formed stream.
type Mut struct {
	Kind  string // truncate | field | type | trailing | insert | grow_with_junk | size_lie | prepend | none
	List  int    // which list (mod number of lists)
	Field int    // 0 ListSize, 1 HeaderSize, 2 SignatureSize
	Value uint32 // new field value (kind field)
	Cut   int    // truncate: keep Cut bytes (mod len+1)
	Type  hx.Hex // type: replacement type GUID (wire bytes)
	Tail  hx.Hex // trailing / insert: garbage bytes
}

type Case struct {
	Stream  hx.Hex
	Muts    []Mut
	AllCuts bool // additionally try every truncation point of the (mutated) stream
	Giant   int  // > 0: the stream is gen.GiantESL(Giant) (tens of MiB, rebuilt when the case runs); the mutations apply to it
}

var otherTypes = []guid.G{esl.SHA1, esl.SHA384, esl.SHA512, esl.RSA2048}

func genMut(t *rapid.T, stream []byte, lists []esl.List) Mut {
	m := Mut{List: rapid.IntRange(0, 7).Draw(t, "list")}
	if rapid.IntRange(0, 11).Draw(t, "sizelie") == 0 {
		// one list replaced by a list whose size fields are consistent with each other (ListSize = 28 + n x
		// SignatureSize, computed in 32 bits) but not with the type or with the data that follows: a signature size
		// near 2^32 with only an owner GUID behind the header, or the right size plus a multiple of 65536 with all the
		// bytes present. Arithmetic in a narrower type, or rounding before reading, turns these into something else.
		m.Kind = "size_lie"
		m.Value = rapid.SampledFrom([]uint32{0xffffffe3, 0xffffffe0, 0xfffff011, 0xfffff800, 0xffff0000, 0x80000010, 48 + 65536, 48 + 2*65536, 17 + 65536, 16 + 65536, 0x10030, 48 + 256, 48 + 512}).Draw(t, "liesize")
		n := uint32(rapid.IntRange(1, 2).Draw(t, "liecount"))
		m.Cut = int(n)
		if uint64(m.Value)*uint64(n) <= 300000 && rapid.Bool().Draw(t, "bytes_present") {
			m.Tail = gen.FillBytes(t, int(m.Value*n))
		} else {
			m.Tail = gen.FillBytes(t, rapid.SampledFrom([]int{16, 16, 17, 48, 64}).Draw(t, "present"))
		}
		return m
	}
	switch rapid.IntRange(0, 9).Draw(t, "kind") {
	case 0, 1, 2:
		m.Kind = "truncate"
		m.Cut = rapid.IntRange(0, len(stream)).Draw(t, "cut")
	case 3, 4, 5, 6:
		m.Kind = "field"
		m.Field = rapid.IntRange(0, 2).Draw(t, "field")
		var cur, size uint32 = 28, 16
		if len(lists) > 0 {
			l := lists[m.List%len(lists)]
			size = l.Size
			switch m.Field {
			case 0:
				cur = l.ListSize()
			case 1:
				cur = 0
			case 2:
				cur = l.Size
			}
		}
		cands := []uint32{0, 1, 15, 16, 17, 27, 28, 29, 47, 48, 49, cur - 1, cur + 1, cur - size/2, cur + size/2, cur - size, cur + size,
			uint32(len(stream)), uint32(len(stream)) + 1, uint32(len(stream)) - 1, 0x7fffffff, 0x80000000, 0xffffffff, 0xfffffff0}
		if rapid.IntRange(0, 4).Draw(t, "anyvalue") == 0 {
			m.Value = rapid.Uint32Range(0, 4000).Draw(t, "value")
		} else {
			m.Value = rapid.SampledFrom(cands).Draw(t, "value")
		}
	case 7:
		m.Kind = "type"
		if rapid.Bool().Draw(t, "valid_unhandled") {
			m.Type = rapid.SampledFrom(otherTypes).Draw(t, "othertype").Wire()
		} else {
			m.Type = gen.GUID().Draw(t, "randtype").Wire()
		}
	case 8:
		m.Kind = "trailing"
		m.Tail = gen.FillBytes(t, rapid.IntRange(1, 60).Draw(t, "tail"))
	default:
		if rapid.IntRange(0, 3).Draw(t, "prepend") == 0 {
			// a signed update as it is handed to the firmware: an authentication descriptor in front of the lists.
			// A descriptor is not a signature list; a decoder of databases has to refuse the input.
			var ts [16]byte
			copy(ts[:], gen.FillBytes(t, 16))
			m.Kind = "prepend"
			m.Tail = authvar.EncodeAuth2(ts, 0x0200, 0x0ef1, authvar.PKCS7GUID, gen.SizedBytes(300, 0, 1).Draw(t, "certdata"))
			return m
		}
		if rapid.Bool().Draw(t, "grow") {
			// the list claims r more bytes and r junk bytes are really there (before the next list)
			m.Kind = "grow_with_junk"
			m.Tail = gen.FillBytes(t, rapid.IntRange(1, 60).Draw(t, "junk"))
		} else {
			m.Kind = "insert"
			m.Tail = gen.FillBytes(t, rapid.IntRange(1, 30).Draw(t, "ins"))
		}
	}
	return m
}

func genCase(t *rapid.T) Case {
	if gen.Chance(t, "giant", 1, 1000) {
		// tens of MiB, whole or cut somewhere: nothing is dropped silently at any size
		c := Case{Giant: rapid.SampledFrom([]int{1, 2, 2, 2, 3}).Draw(t, "giantkind")}
		if rapid.Bool().Draw(t, "giantcut") {
			c.Muts = []Mut{{Kind: "truncate", Cut: rapid.IntRange(1<<20, 40<<20).Draw(t, "cut")}}
		}
		return c
	}
	lists := gen.ESLStreamHuge(4).Draw(t, "stream")
	// keep streams small so that every truncation point can be tried
	for i := range lists {
		if lists[i].Size > 16+64 {
			n := int(lists[i].Size-16) % 60
			lists[i].Size = uint32(16 + n)
			for j := range lists[i].Entries {
				lists[i].Entries[j].Data = lists[i].Entries[j].Data[:n]
			}
		}
	}
	stream := esl.Encode(lists)
	c := Case{Stream: stream, AllCuts: rapid.IntRange(0, 3).Draw(t, "allcuts") == 0}
	n := rapid.SampledFrom([]int{0, 1, 1, 1, 1, 2}).Draw(t, "nmut")
	for i := 0; i < n; i++ {
		c.Muts = append(c.Muts, genMut(t, stream, lists))
	}
	return c
}

func listOffsets(lists []esl.List) []int {
	var offs []int
	o := 0
	for _, l := range lists {
		offs = append(offs, o)
		o += int(l.ListSize())
	}
	return offs
}

func apply(stream []byte, muts []Mut) []byte {
	out := append([]byte{}, stream...)
	lists, _ := esl.Split(stream)
	offs := listOffsets(lists)
	for _, m := range muts {
		switch m.Kind {
		case "truncate":
			out = out[:m.Cut%(len(out)+1)]
		case "field":
			if len(offs) > 0 {
				o := offs[m.List%len(offs)] + 16 + 4*(m.Field%3)
				if o+4 <= len(out) {
					binary.LittleEndian.PutUint32(out[o:], m.Value)
				}
			}
		case "type":
			if len(offs) > 0 && len(m.Type) == 16 {
				o := offs[m.List%len(offs)]
				if o+16 <= len(out) {
					copy(out[o:], m.Type)
				}
			}
		case "size_lie":
			if len(offs) > 0 {
				k := m.List % len(offs)
				o := offs[k]
				if o+28 <= len(out) {
					oldSize := int(binary.LittleEndian.Uint32(out[o+16:]))
					end := o + oldSize
					if oldSize < 28 || end > len(out) {
						end = len(out)
					}
					repl := append([]byte{}, out[o:o+16]...) // keep the type
					repl = binary.LittleEndian.AppendUint32(repl, 28+uint32(m.Cut)*m.Value)
					repl = binary.LittleEndian.AppendUint32(repl, 0)
					repl = binary.LittleEndian.AppendUint32(repl, m.Value)
					repl = append(repl, m.Tail...)
					out = append(out[:o:o], append(repl, out[end:]...)...)
					for j := k + 1; j < len(offs); j++ {
						offs[j] += len(repl) - (end - o)
					}
				}
			}
		case "prepend":
			out = append(append([]byte{}, m.Tail...), out...)
			for j := range offs {
				offs[j] += len(m.Tail)
			}
		case "trailing":
			out = append(out, m.Tail...)
		case "grow_with_junk":
			if len(offs) > 0 {
				k := m.List % len(offs)
				o := offs[k]
				if o+20 <= len(out) {
					ls := binary.LittleEndian.Uint32(out[o+16:])
					end := o + int(ls)
					if end <= len(out) && end >= o {
						binary.LittleEndian.PutUint32(out[o+16:], ls+uint32(len(m.Tail)))
						out = append(out[:end:end], append(append([]byte{}, m.Tail...), out[end:]...)...)
						for j := k + 1; j < len(offs); j++ {
							offs[j] += len(m.Tail)
						}
					}
				}
			}
		case "insert":
			if len(offs) > 0 {
				o := offs[m.List%len(offs)]
				if o <= len(out) {
					out = append(out[:o:o], append(append([]byte{}, m.Tail...), out[o:]...)...)
				}
			}
		}
	}
	return out
}

// checkInput is the oracle: library success implies reference acceptance and equal lists.
func checkInput(in []byte, class string) error {
	hx.Eval()
	want, rerr := esl.Decode(in)
	db, lerr := signature.ReadSignatureDatabase(bytes.NewReader(in))
	if rerr != nil {
		hx.Class("ref_rejects/" + class)
	} else {
		hx.Class("ref_accepts/" + class)
	}
	// the verdict must not depend on the kind of reader: same input through a reader that offers nothing but Read
	if len(in)%3 == 0 {
		dbp, perr := signature.ReadSignatureDatabase(&hx.PlainReader{R: bytes.NewReader(in), Chunk: 5})
		if (perr == nil) != (lerr == nil) {
			return fmt.Errorf("ReadSignatureDatabase gives another verdict for the same %d-byte input read through a plain io.Reader: %v (bytes.Reader: %v) [%s]; input %x", len(in), perr, lerr, class, in)
		}
		if perr == nil && !bytes.Equal(dbp.Bytes(), db.Bytes()) {
			return fmt.Errorf("ReadSignatureDatabase decodes another database for the same input read through a plain io.Reader [%s]; input %x", class, in)
		}
	}
	if lerr != nil {
		return nil // an error is always an acceptable answer for C08 (C07 covers the converse)
	}
	if rerr != nil {
		got, _ := adapt.DBFromLib(db)
		return fmt.Errorf("ReadSignatureDatabase returned %d lists (%d entries) and no error for a %d-byte input the reference rejects (%v) [%s]; input %x",
			len(db), len(esl.Flatten(got)), len(in), rerr, class, in)
	}
	got, err := adapt.DBFromLib(db)
	if err != nil {
		return fmt.Errorf("decoded database inconsistent: %v; input %x", err, in)
	}
	if err := esl.EqualLists(got, want); err != nil {
		return fmt.Errorf("decoded database differs from the reference decoding (library vs reference): %v; input %x", err, in)
	}
	return nil
}

// failingReader delivers data[:at] and then fails with an error that is not io.EOF (a device error, a broken pipe).
type failingReader struct {
	data []byte
	pos  int
	at   int
}

func (f *failingReader) Read(p []byte) (int, error) {
	if f.pos >= f.at {
		return 0, errors.New("verif: injected read error (not EOF)")
	}
	n := copy(p, f.data[f.pos:f.at])
	f.pos += n
	return n, nil
}

// checkReaderFaults: the input arrives through a reader that fails at offset k, for every k where a list starts or
// ends and a few in between. Whatever the reader had delivered so far, the decoder did not see the end of the input:
// it must report an error, never a database made of the lists that happened to be complete.
func checkReaderFaults(in []byte) error {
	lists, err := esl.Split(in)
	if err != nil || len(in) > 4096 {
		return nil
	}
	offs := append(listOffsets(lists), len(in))
	var ks []int
	for _, o := range offs {
		ks = append(ks, o, o+1, o+16, o+28)
	}
	for _, k := range ks {
		if k < 0 || k > len(in) {
			continue
		}
		hx.Eval()
		db, derr := signature.ReadSignatureDatabase(&failingReader{data: in, at: k})
		if derr == nil {
			return fmt.Errorf("ReadSignatureDatabase returned %d lists and no error although its reader failed (not with EOF) at offset %d of %d; input %x", len(db), k, len(in), in)
		}
	}
	hx.Class("reader_fails_at_list_boundaries")
	return nil
}

const (
	efidir = "/sys/firmware/efi/efivars/"
	global = "8be4df61-93ca-11d2-aa0d-00e098032b8c"
	secdb  = "d719b2cb-3d3a-4596-a3bc-dad00e67656f"
)

// checkRoutes asks the other decoding entry points for the same bytes: Unmarshal, and the typed getters of the
// object API and of the legacy package-level API, which decode the content of PK / KEK / db / dbx variable files.
// For every route: a database returned without an error has to be the one the reference decodes from all of the input.
func checkRoutes(in []byte, class string) error {
	want, rerr := esl.Decode(in)
	judge := func(route string, db *signature.SignatureDatabase, lerr error) error {
		if lerr != nil {
			hx.Class("route_rejects/" + route)
			return nil
		}
		hx.Class("route_accepts/" + route)
		if db == nil {
			return fmt.Errorf("%s returned neither a database nor an error [%s]; input %x", route, class, in)
		}
		if rerr != nil {
			got, _ := adapt.DBFromLib(*db)
			return fmt.Errorf("%s returned %d lists (%d entries) and no error for a %d-byte variable content the reference rejects (%v) [%s]; input %x", route, len(*db), len(esl.Flatten(got)), len(in), rerr, class, in)
		}
		got, err := adapt.DBFromLib(*db)
		if err != nil {
			return fmt.Errorf("%s: decoded database inconsistent: %v; input %x", route, err, in)
		}
		if err := esl.EqualLists(got, want); err != nil {
			return fmt.Errorf("%s: decoded database differs from the reference decoding (library vs reference): %v; input %x", route, err, in)
		}
		return nil
	}
	var u signature.SignatureDatabase
	uerr := u.Unmarshal(bytes.NewBuffer(append([]byte{}, in...)))
	if err := judge("Unmarshal", &u, uerr); err != nil {
		return err
	}
	file := append([]byte{0x27, 0, 0, 0}, in...)
	vars := []struct{ name, guid string }{{"PK", global}, {"KEK", global}, {"db", secdb}, {"dbx", secdb}}
	for i, v := range vars {
		e := testfs.NewTestFS().With(fstest.MapFS{efidir + v.name + "-" + v.guid: {Data: file}}).Open()
		var db *signature.SignatureDatabase
		var err error
		switch i {
		case 0:
			db, err = e.GetPK()
		case 1:
			db, err = e.GetKEK()
		case 2:
			db, err = e.Getdb()
		default:
			db, err = e.Getdbx()
		}
		if err := judge("efivarfs getter of "+v.name, db, err); err != nil {
			return err
		}
	}
	mem := afero.NewMemMapFs()
	for _, v := range vars {
		afero.WriteFile(mem, efidir+v.name+"-"+v.guid, file, 0644)
	}
	saved, savedDir := efifs.Fs, attributes.Efivars
	efifs.SetFS(mem)
	attributes.Efivars = strings.TrimSuffix(efidir, "/")
	defer func() { efifs.SetFS(saved); attributes.Efivars = savedDir }()
	for i, f := range []func() (*signature.SignatureDatabase, error){efi.GetPK, efi.GetKEK, efi.Getdb, efi.Getdbx} {
		db, err := f()
		if err := judge("legacy efi getter of "+vars[i].name, db, err); err != nil {
			return err
		}
	}
	return nil
}

func checkCase(c Case) error {
	if c.Giant > 0 {
		c.Stream = esl.Encode(gen.GiantESL(c.Giant))
		c.AllCuts = false
		hx.Class(fmt.Sprintf("stream_of_%d_MiB", len(c.Stream)>>20))
	}
	in := apply(c.Stream, c.Muts)
	class := "unmutated"
	if len(c.Muts) > 0 {
		class = c.Muts[0].Kind
		if len(c.Muts) > 1 {
			class = "combined"
		}
	}
	if _, err := esl.Decode(in); err != nil && !bytes.Equal(in, c.Stream) {
		hx.NonTrivial(in)
		if hx.WantSample() {
			hx.Sample(map[string]any{"input_hex": hx.Hex(in), "mutations": c.Muts, "reference_verdict": err.Error()})
		}
	}
	if err := checkInput(in, class); err != nil {
		return err
	}
	if err := checkRoutes(in, class); err != nil {
		return err
	}
	if c.Giant == 0 { // (a fault at every list boundary of a 34 MiB stream is 140 full decodes)
		if err := checkReaderFaults(in); err != nil {
			return err
		}
	}
	if c.AllCuts && len(in) <= 1500 {
		for cut := 0; cut < len(in); cut++ {
			if _, err := esl.Decode(in[:cut]); err != nil {
				hx.NonTrivial(in[:cut])
			}
			if err := checkInput(in[:cut], "every_truncation_point"); err != nil {
				return fmt.Errorf("truncated to %d of %d bytes: %w", cut, len(in), err)
			}
			if cut%8 == len(in)%8 || cut < 64 {
				if err := checkRoutes(in[:cut], "every_truncation_point"); err != nil {
					return fmt.Errorf("truncated to %d of %d bytes: %w", cut, len(in), err)
				}
			}
		}
	}
	return nil
}

var checker = hx.Checker[Case]{Property: "C08", Gen: genCase, Check: checkCase, ManualEval: true}

func TestC08(t *testing.T)       { checker.Rapid(t) }
func TestC08Replay(t *testing.T) { checker.Replay(t) }

// TestC08Pinned: every truncation point of the repository's ESL fixtures
// (deterministic, exhaustive), and the reference accepts the fixtures.
func TestC08Pinned(t *testing.T) {
	defer hx.Dump()
	n := 0
	for _, p := range []string{"tests/data/signatures/siglist/PK.der.esl", "tests/data/signatures/siglist/db.der.esl", "tests/data/signatures/siglistchecksum/sha256.bin.siglist"} {
		b, ok := hx.RepoFile(p)
		if !ok {
			continue
		}
		if _, err := esl.Decode(b); err != nil {
			t.Fatalf("ORACLE-SELFCHECK-FAIL reference rejects fixture %s: %v", p, err)
		}
		n++
	}
	fmt.Printf("ORACLE-SELFCHECK-OK reference decoder accepts %d repository ESL fixtures\n", n)
}

// FuzzC08 is the native fuzz target (thorough tier): arbitrary bytes, same oracle.
func FuzzC08(f *testing.F) {
	for _, p := range []string{"tests/data/signatures/siglist/PK.der.esl", "tests/data/signatures/siglist/db.der.esl", "tests/data/signatures/siglistchecksum/sha256.bin.siglist"} {
		if b, ok := hx.RepoFile(p); ok {
			f.Add(b)
		}
	}
	f.Add(esl.Encode([]esl.List{{Type: esl.SHA256, Size: 48, Entries: []esl.Entry{{Data: make([]byte, 32)}}}, {Type: esl.X509, Size: 20, Entries: []esl.Entry{{Data: []byte{1, 2, 3, 4}}}}, {Type: esl.ExtMgm, Size: 17}}))
	f.Add([]byte{})
	for i := 0; i < 300; i++ {
		c := rapid.Custom(genCase).Example(i)
		if in := apply(c.Stream, c.Muts); len(in) <= 1<<16 {
			f.Add(in)
		}
	}
	f.Fuzz(hx.FuzzBody("C08", "FuzzC08", func(in []byte) error {
		if len(in) > 1<<16 {
			return nil
		}
		if err := checkInput(in, "native_fuzz"); err != nil {
			return err
		}
		return checkRoutes(in, "native_fuzz")
	}))
}

func TestC08FuzzReplay(t *testing.T) {
	hx.FuzzReplay(t, "C08", map[string]func([]byte) error{"FuzzC08": func(in []byte) error {
		if err := checkInput(in, "native_fuzz"); err != nil {
			return err
		}
		return checkRoutes(in, "native_fuzz")
	}})
}
