// C04 — PKCS#7 verification succeeds only for a valid signature bound to the content.
package c04

import (
	"bytes"
	"crypto/x509"
	"fmt"
	"testing"

	"pgregory.net/rapid"

	"github.com/foxboron/go-uefi/authenticode"
	"github.com/foxboron/go-uefi/efi/signature"
	"github.com/foxboron/go-uefi/pkcs7"

	"verifharness/gen"
	"verifharness/hx"
	"verifharness/ref/authvar"
	"verifharness/ref/cms"
	"verifharness/seeds"
)

type Case struct {
	Blob     hx.Hex
	Cert     hx.Hex // verifying certificate (DER)
	Seed     string // kind of the valid signature the blob was derived from
	Class    string // mutation class ("none" = unmodified)
	Role     string // signer | other | twin (same issuer and serial, another key)
	AllFlips bool   // additionally change every byte of the blob in turn
	Primer   hx.Hex // when set: the same parsed object is first verified against this (genuine signer) certificate
	Orig     hx.Hex // the valid blob the case was derived from (set for derived blobs only)
	Before   hx.Hex // when set: a blob (judged like any other) that is verified before Blob in the same process
}

func genCase(t *rapid.T) Case {
	var c Case
	var signer gen.Identity
	var blob []byte
	fx := seeds.Fixtures()
	useFixture := len(fx) > 0 && rapid.IntRange(0, 7).Draw(t, "fixture") == 0
	if useFixture {
		f := fx[rapid.IntRange(0, len(fx)-1).Draw(t, "which")]
		if f.Cert == nil {
			useFixture = false
		} else {
			blob, c.Seed = f.Blob, "fixture:"+f.Name
			signer = gen.Identity{Key: -1, Cert: f.Cert}
		}
	}
	if !useFixture {
		if rapid.IntRange(0, 3).Draw(t, "fixedid") != 0 {
			signer = rapid.SampledFrom(gen.FixedIdents()[:4]).Draw(t, "id")
		} else {
			signer = gen.Ident(true).Draw(t, "ident")
		}
		s := seeds.Draw(t, signer)
		blob, c.Seed = s.Blob, s.Kind
	}
	other := gen.FixedIdents()[5]
	env := gen.MutEnv{OtherCert: other.Cert.Raw, OtherIssuer: other.Cert.RawIssuer, AltKey: gen.Keys()[1], NewContent: gen.SizedBytes(64, 0, 1, 32).Draw(t, "newcontent")}
	if signer.Key == 1 {
		env.AltKey = gen.Keys()[2]
	}
	if signer.Key >= 0 {
		env.SignerKey = signer.Priv()
	}
	// somebody else's valid signature with encapsulated content (for the two-signer splice)
	if rapid.IntRange(0, 3).Draw(t, "withforeign") == 0 {
		if f, err := seeds.Emulate(other, gen.SizedBytes(40, 1, 32).Draw(t, "foreigncontent"), seeds.EmulOpts{Attached: true, Sorted: true, CMS: rapid.Bool().Draw(t, "foreigncms")}); err == nil {
			env.Foreign = f
		}
	}
	c.Class = "none"
	c.Blob = blob
	if rapid.IntRange(0, 11).Draw(t, "mutate") != 0 {
		if m, class := gen.MutateCMS(t, blob, env); class != "" {
			c.Blob, c.Class = m, class
			if rapid.IntRange(0, 2).Draw(t, "keep_original") == 0 {
				c.Orig = blob
			}
		}
		if rapid.IntRange(0, 5).Draw(t, "second") == 0 {
			if m, class := gen.MutateCMS(t, c.Blob, env); class != "" {
				c.Blob, c.Class = m, c.Class+"+"+class
			}
		}
	}
	if gen.Chance(t, "split", 1, 6) {
		// a pair: the valid signature with the first k octets of its content in place of the content, verified first (it
		// is refused), then the same signature with the remaining octets. What the first verification consumed must not
		// count towards the second
		if p, sfx, _, ok := gen.SplitContent(blob, rapid.IntRange(0, 1<<16).Draw(t, "splitat")); ok {
			c.Before, c.Blob, c.Class, c.Orig = p, sfx, "content_suffix_after_prefix_attempt", nil
		}
	}
	switch rapid.IntRange(0, 5).Draw(t, "role") {
	case 0:
		c.Role, c.Cert = "other", other.Cert.Raw
	case 1:
		c.Role = "twin"
		k := 2
		if signer.Key == 2 {
			k = 3
		}
		tw, err := gen.Twin(signer, k)
		if err != nil {
			t.Fatalf("twin: %v", err)
		}
		c.Cert = tw.Cert.Raw
	case 2:
		at, err := gen.AlienTwin(signer, rapid.IntRange(0, 2).Draw(t, "alien"))
		if err != nil {
			t.Fatalf("alien twin: %v", err)
		}
		c.Role, c.Cert = "twin_without_rsa_key", at.Raw
	default:
		c.Role, c.Cert = "signer", signer.Cert.Raw
	}
	if c.Class == "sig_by_other_key" && rapid.Bool().Draw(t, "verify_with_twin_of_altkey") {
		// the forger's view: a certificate on the alternative key with the victim's issuer and serial
		k := 1
		if signer.Key == 1 {
			k = 2
		}
		if tw, err := gen.Twin(signer, k); err == nil {
			c.Role, c.Cert = "twin_of_forger", tw.Cert.Raw
		}
	}
	if c.Role != "signer" && rapid.Bool().Draw(t, "primer") {
		c.Primer = signer.Cert.Raw
	}
	c.AllFlips = hx.Thorough() && len(c.Blob) <= 2048 && rapid.IntRange(0, 49).Draw(t, "allflips") == 0
	return c
}

// verdict runs the library on (blob, cert) through every verification entry point.
func verdict(blob []byte, cert *x509.Certificate, primer *x509.Certificate) (parsed, matched, accepted bool, how string) {
	p, err := pkcs7.ParsePKCS7(blob)
	if err != nil {
		return false, false, false, ""
	}
	if primer != nil {
		// an earlier verification on the same object must not influence a later one
		p.Verify(primer)
		hx.Class("same_object_verified_twice")
	}
	matched = p.HasCertificate(cert)
	ok, verr := p.Verify(cert)
	if ok && verr == nil {
		return true, matched, true, "pkcs7.Verify"
	}
	// inside an authenticated-variable descriptor
	av := signature.EFIVariableAuthentication2{AuthInfo: signature.WinCertificateUEFIGUID{CertData: blob}}
	if ok, err := av.Verify(cert); ok && err == nil {
		return true, matched, true, "EFIVariableAuthentication2.Verify"
	}
	// inside an Authenticode signature (signature part only; the image binding is C02)
	if a, err := authenticode.ParseAuthenticode(blob); err == nil && a.Pkcs != nil {
		if primer != nil {
			a.Pkcs.Verify(primer)
		}
		if ok, err := a.Pkcs.Verify(cert); ok && err == nil {
			return true, matched, true, "Authenticode.Pkcs.Verify"
		}
	}
	return true, matched, false, ""
}

func checkOne(blob []byte, cert *x509.Certificate, class string, primer ...*x509.Certificate) (bool, error) {
	hx.Eval()
	orig := append([]byte{}, blob...)
	defer func() {
		if !bytes.Equal(orig, blob) {
			panic("C04 harness: verification modified the caller's signature bytes")
		}
	}()
	var pr *x509.Certificate
	if len(primer) > 0 {
		pr = primer[0]
	}
	parsed, matched, accepted, how := verdict(blob, cert, pr)
	if !parsed {
		hx.Class("lib_parse_error/" + short(class))
		return false, nil
	}
	if accepted {
		hx.Class("lib_accepts/" + short(class))
		v := cms.Accepts(blob, cert)
		if !v.OK {
			return matched, fmt.Errorf("%s reports success for a blob (class %s, %d bytes) the reference verifier rejects: %s", how, class, len(blob), v.Reason)
		}
	} else {
		hx.Class("lib_rejects/" + short(class))
	}
	return matched, nil
}

// descriptorBufferReuse: the derived blob arrives inside an authentication descriptor that is decoded with Unmarshal
// from a buffer of the caller's; the caller then uses the same buffer for the next descriptor (which carries the
// valid original) and only afterwards asks the first one. A decoded descriptor is a value of its own.
func descriptorBufferReuse(blob, orig []byte, cert *x509.Certificate, class string) error {
	var ts [16]byte
	buf := bytes.NewBuffer(authvar.EncodeAuth2(ts, 0x0200, 0x0ef1, authvar.PKCS7GUID, blob))
	var first signature.EFIVariableAuthentication2
	if err := first.Unmarshal(buf); err != nil {
		return nil
	}
	buf.Reset()
	buf.Write(authvar.EncodeAuth2(ts, 0x0200, 0x0ef1, authvar.PKCS7GUID, orig))
	var second signature.EFIVariableAuthentication2
	second.Unmarshal(buf)
	hx.Class("descriptor_decoded_from_a_buffer_that_is_reused")
	if ok, err := first.Verify(cert); ok && err == nil {
		if v := cms.Accepts(blob, cert); !v.OK {
			return fmt.Errorf("EFIVariableAuthentication2.Verify reports success for a descriptor decoded from a buffer the caller reused afterwards; its blob (class %s, %d bytes) is rejected by the reference verifier: %s", class, len(blob), v.Reason)
		}
	}
	return nil
}

func short(class string) string {
	for i := 0; i < len(class); i++ {
		if class[i] == '+' {
			return "combined"
		}
	}
	return class
}

func checkCase(c Case) error {
	cert, err := x509.ParseCertificate(c.Cert)
	if err != nil {
		return fmt.Errorf("bad case: certificate: %v", err)
	}
	hx.Class("role/" + c.Role)
	var primer *x509.Certificate
	if len(c.Primer) > 0 {
		if primer, err = x509.ParseCertificate(c.Primer); err != nil {
			return fmt.Errorf("bad case: primer: %v", err)
		}
	}
	if len(c.Before) > 0 {
		if _, err := checkOne(c.Before, cert, "content_prefix", primer); err != nil {
			return fmt.Errorf("[seed %s, verifying certificate: %s, blob verified first] %w", c.Seed, c.Role, err)
		}
	}
	matched, err := checkOne(c.Blob, cert, c.Class, primer)
	if err != nil {
		return fmt.Errorf("[seed %s, verifying certificate: %s] %w", c.Seed, c.Role, err)
	}
	if len(c.Orig) > 0 && !bytes.Equal(c.Orig, c.Blob) {
		if err := descriptorBufferReuse(c.Blob, c.Orig, cert, c.Class); err != nil {
			return fmt.Errorf("[seed %s, verifying certificate: %s] %w", c.Seed, c.Role, err)
		}
	}
	if c.Class != "none" && matched {
		hx.NonTrivial(c.Blob, c.Cert)
		if hx.WantSample() && len(c.Blob) < 1500 {
			hx.Sample(map[string]any{"seed": c.Seed, "class": c.Class, "role": c.Role, "blob_hex": c.Blob})
		}
	}
	if c.AllFlips {
		hx.Class("every_byte_changed")
		mut := append([]byte{}, c.Blob...)
		for i := range mut {
			for _, x := range []byte{0x01, 0x80} {
				mut[i] ^= x
				m, err := checkOne(mut, cert, "every_byte")
				if m {
					hx.NonTrivial(mut, c.Cert)
				}
				if err != nil {
					return fmt.Errorf("[seed %s, byte %d xor %#x, verifying certificate: %s] %w", c.Seed, i, x, c.Role, err)
				}
				mut[i] ^= x
			}
		}
	}
	return nil
}

var checker = hx.Checker[Case]{Property: "C04", Gen: genCase, Check: checkCase, ManualEval: true}

func TestC04(t *testing.T)       { checker.Rapid(t) }
func TestC04Replay(t *testing.T) { checker.Replay(t) }

// TestC04Pinned validates the reference verifier against a second source:
// go.mozilla.org/pkcs7 must agree with it on honest and tampered samples, and
// it must accept the third-party fixtures that carry signed attributes.
func TestC04Pinned(t *testing.T) { selfCheck(t) }

func fuzzOracle(in []byte) error {
	if len(in) > 1<<16 {
		return nil
	}
	for _, id := range gen.FixedIdents()[:2] {
		if _, err := checkOne(in, id.Cert, "native_fuzz"); err != nil {
			return err
		}
	}
	for _, f := range seeds.Fixtures() {
		if f.Cert != nil {
			if _, err := checkOne(in, f.Cert, "native_fuzz"); err != nil {
				return err
			}
			break
		}
	}
	return nil
}

func FuzzC04(f *testing.F) {
	for _, fx := range seeds.Fixtures() {
		f.Add(fx.Blob)
	}
	for i, id := range gen.FixedIdents()[:2] {
		if b, err := pkcs7.SignPKCS7(id.Priv(), id.Cert, pkcs7.OIDData, []byte{byte(i), 2, 3}); err == nil {
			f.Add(b)
		}
		if b, err := seeds.Emulate(id, []byte("hello"), seeds.EmulOpts{Attached: true, SMIMECaps: true, Sorted: true}); err == nil {
			f.Add(b)
		}
	}
	for i := 0; i < 200; i++ {
		if c := rapid.Custom(genCase).Example(i); len(c.Blob) <= 1<<16 {
			f.Add([]byte(c.Blob))
		}
	}
	f.Fuzz(hx.FuzzBody("C04", "FuzzC04", fuzzOracle))
}

func TestC04FuzzReplay(t *testing.T) {
	hx.FuzzReplay(t, "C04", map[string]func([]byte) error{"FuzzC04": fuzzOracle})
}
