package c04

import (
	"fmt"
	"testing"
	"time"

	mozilla "go.mozilla.org/pkcs7"

	"github.com/foxboron/go-uefi/pkcs7"

	"verifharness/gen"
	"verifharness/ref/cms"
	"verifharness/seeds"
)

// mozillaAccepts verifies with the third implementation (content supplied for detached signatures).
func mozillaAccepts(blob, content []byte, detached bool) bool {
	p, err := mozilla.Parse(blob)
	if err != nil {
		return false
	}
	if detached {
		p.Content = content
	}
	return p.Verify() == nil
}

func selfCheck(t *testing.T) {
	ids := gen.FixedIdents()
	n, tampered := 0, 0
	for i, id := range ids[:3] {
		content := []byte(fmt.Sprintf("content %d for the oracle self-check", i))
		for _, o := range []seeds.EmulOpts{
			{Attached: true, Sorted: true, SMIMECaps: true, Time: time.Now()},
			{Attached: true, Sorted: true, CMS: true, Time: time.Now()},
			{Attached: false, Sorted: true, Time: time.Now()},
		} {
			blob, err := seeds.Emulate(id, content, o)
			if err != nil {
				t.Fatalf("ORACLE-SELFCHECK-FAIL emulate: %v", err)
			}
			ref := cms.Accepts(blob, id.Cert)
			moz := mozillaAccepts(blob, content, !o.Attached)
			if !ref.OK || !moz {
				t.Fatalf("ORACLE-SELFCHECK-FAIL honest sample: reference %v (%s), mozilla %v", ref.OK, ref.Reason, moz)
			}
			n++
			if o.Attached {
				// tamper with the encapsulated content: both must reject
				sd, _ := cms.Parse(blob)
				root := sd.Root.Clone()
				sd2, _ := cms.Locate(root)
				sd2.EContent0.Children[0].Content[0] ^= 1
				bad := root.Encode()
				if cms.Accepts(bad, id.Cert).OK || mozillaAccepts(bad, nil, false) {
					t.Fatalf("ORACLE-SELFCHECK-FAIL tampered content accepted: reference %v mozilla %v", cms.Accepts(bad, id.Cert).OK, mozillaAccepts(bad, nil, false))
				}
				tampered++
			}
			// wrong certificate
			if cms.Accepts(blob, ids[(i+1)%3].Cert).OK {
				t.Fatalf("ORACLE-SELFCHECK-FAIL reference accepts under another certificate")
			}
			// flipped signature
			sd, _ := cms.Parse(blob)
			root := sd.Root.Clone()
			sd2, _ := cms.Locate(root)
			sd2.Signers[0].Sig.Content[5] ^= 4
			bad := root.Encode()
			if cms.Accepts(bad, id.Cert).OK || mozillaAccepts(bad, content, !o.Attached) {
				t.Fatalf("ORACLE-SELFCHECK-FAIL flipped signature accepted")
			}
			tampered++
		}
		// library output must be acceptable to both (data type, detached)
		blob, err := pkcs7.SignPKCS7(id.Priv(), id.Cert, pkcs7.OIDData, content)
		if err == nil {
			if ref := cms.Accepts(blob, id.Cert); !ref.OK || !mozillaAccepts(blob, content, true) {
				t.Fatalf("ORACLE-SELFCHECK-FAIL reference (%v: %s) / mozilla (%v) reject a library-made signature", ref.OK, ref.Reason, mozillaAccepts(blob, content, true))
			}
			n++
		}
	}
	fx := 0
	for _, f := range seeds.Fixtures() {
		sd, err := cms.Parse(f.Blob)
		if err != nil {
			t.Fatalf("ORACLE-SELFCHECK-FAIL reference cannot parse fixture %s: %v", f.Name, err)
		}
		if f.Cert != nil && len(sd.Signers) > 0 && sd.Signers[0].Attrs != nil {
			if v := cms.Accepts(f.Blob, f.Cert); !v.OK {
				t.Fatalf("ORACLE-SELFCHECK-FAIL reference rejects third-party fixture %s: %s", f.Name, v.Reason)
			}
			fx++
		}
	}
	fmt.Printf("ORACLE-SELFCHECK-OK reference CMS verifier agrees with go.mozilla.org/pkcs7 on %d honest and %d tampered samples and accepts %d sbsign fixtures\n", n, tampered, fx)
}
