package c13

import (
	"encoding/binary"
	"os"
	"testing"

	"verifharness/hx"
)

// TestC13MakeKnown writes the example input of the debug/pe relocation
// allocation finding (run by hand: VERIF_CASEFILE=... go test -run TestC13MakeKnown).
func TestC13MakeKnown(t *testing.T) {
	if os.Getenv("VERIF_MAKE_KNOWN") == "" {
		t.Skip()
	}
	le := binary.LittleEndian
	img := make([]byte, 65536)
	img[0], img[1] = 'M', 'Z'
	le.PutUint32(img[0x3c:], 64)
	copy(img[64:], "PE\x00\x00")
	le.PutUint16(img[68:], 0x8664)
	le.PutUint16(img[70:], 1000) // NumberOfSections
	le.PutUint16(img[84:], 240)  // SizeOfOptionalHeader
	le.PutUint16(img[88:], 0x20b)
	le.PutUint32(img[88+108:], 16)
	le.PutUint32(img[88+60:], 88+240+40*1000)
	for i := 0; i < 1000; i++ {
		h := img[88+240+40*i:]
		copy(h, ".s")
		le.PutUint16(h[32:], 6000) // NumberOfRelocations, PointerToRelocations = 0
	}
	hx.WriteFailure("C13", Case{Entry: "image", Input: img, Class: "known:debug/pe relocation tables"}, "known finding example")
}
