// C13 — untrusted images and signatures never crash, hang, exit or blow up memory.
package c13

import (
	"bytes"
	"crypto"
	"encoding/binary"
	"fmt"
	"io"
	"os"
	"testing"

	"pgregory.net/rapid"

	"github.com/foxboron/go-uefi/authenticode"
	"github.com/foxboron/go-uefi/efi/signature"
	"github.com/foxboron/go-uefi/pkcs7"

	"verifharness/gen"
	"verifharness/hx"
	"verifharness/ref/acode"
	"verifharness/sandbox"
	"verifharness/seeds"
)

func TestMain(m *testing.M) {
	sandbox.MaybeWorker()
	os.Exit(m.Run())
}

func init() {
	sandbox.Register(map[string]sandbox.Entry{
		// the whole life of an untrusted image: parse, list signatures, hash, re-serialise, verify
		"image": func(in []byte) (int, error) {
			p, err := authenticode.Parse(bytes.NewReader(in))
			if err != nil {
				return 0, err
			}
			stage := 1
			var firstErr error
			if _, err := p.Signatures(); err != nil {
				firstErr = err
			} else {
				stage = 2
			}
			_ = p.Hash(crypto.SHA256)
			_ = p.Bytes()
			if _, err := io.Copy(io.Discard, p.Open()); err != nil && firstErr == nil {
				firstErr = err
			}
			for _, id := range gen.FixedIdents()[:2] {
				if ok, err := p.Verify(id.Cert); ok {
					stage = 4
				} else if err == nil || err == authenticode.ErrNoValidSignatures {
					if stage < 3 {
						stage = 3
					}
				} else if firstErr == nil {
					firstErr = err
				}
			}
			for _, f := range seeds.Fixtures() {
				if f.Cert != nil {
					p.Verify(f.Cert)
					break
				}
			}
			if len(in)%4 == 0 {
				// what a signing tool does with an image it was handed: add a signature of its own to whatever is
				// there, then look at the object again
				id := gen.FixedIdents()[0]
				if _, err := p.Sign(id.Priv(), id.Cert); err == nil {
					p.Verify(gen.FixedIdents()[1].Cert)
					p.Verify(id.Cert)
					p.Signatures()
					_ = p.Bytes()
					_ = p.Hash(crypto.SHA256)
				}
			}
			return stage, firstErr
		},
		"pkcs7": func(in []byte) (int, error) {
			p, err := pkcs7.ParsePKCS7(in)
			if err != nil {
				return 0, err
			}
			stage := 1
			var firstErr error
			for _, id := range gen.FixedIdents()[:2] {
				if p.HasCertificate(id.Cert) {
					stage = 2
				}
				if _, err := p.Verify(id.Cert); err != nil && firstErr == nil {
					firstErr = err
				}
			}
			for _, c := range p.Certs {
				if p.HasCertificate(c) {
					stage = 2
				}
				if _, err := p.Verify(c); err != nil && firstErr == nil {
					firstErr = err
				}
			}
			return stage, firstErr
		},
		"authenticode": func(in []byte) (int, error) {
			a, err := authenticode.ParseAuthenticode(in)
			if err != nil {
				return 0, err
			}
			_, err = a.Verify(gen.FixedIdents()[0].Cert, bytes.NewReader([]byte("image bytes")))
			return 1, err
		},
		"descriptor_verify": func(in []byte) (int, error) {
			av := signature.EFIVariableAuthentication2{AuthInfo: signature.WinCertificateUEFIGUID{CertData: in}}
			_, err := av.Verify(gen.FixedIdents()[0].Cert)
			if err != nil {
				return 0, err
			}
			return 1, nil
		},
	})
}

type Case struct {
	Entry string
	Input hx.Hex
	Class string
}

var pool = sandbox.NewPool()

func validImage(t *rapid.T) []byte {
	switch rapid.IntRange(0, 5).Draw(t, "basekind") {
	case 0:
		var have [][]byte
		for _, f := range []string{"authenticode/testdata/test.pecoff.signed", "tests/data/binary/HelloWorld.efi.signed", "tests/data/binary/test.pecoff"} {
			if b, ok := hx.RepoFile(f); ok {
				have = append(have, b)
			}
		}
		if len(have) > 0 {
			return have[rapid.IntRange(0, len(have)-1).Draw(t, "fixture")]
		}
		fallthrough
	case 1, 2:
		return gen.PEImage(gen.DefaultPE).Draw(t, "img")
	default:
		o := gen.SmallPE
		o.Table = false
		img := gen.PEImage(o).Draw(t, "img")
		bin, err := authenticode.Parse(bytes.NewReader(img))
		if err != nil {
			return img
		}
		id := gen.FixedIdents()[rapid.IntRange(0, 1).Draw(t, "signer")]
		if _, err := bin.Sign(id.Priv(), id.Cert); err != nil {
			return img
		}
		return bin.Bytes()
	}
}

func validBlob(t *rapid.T) []byte {
	fx := seeds.Fixtures()
	if len(fx) > 0 && rapid.IntRange(0, 3).Draw(t, "fx") == 0 {
		return fx[rapid.IntRange(0, len(fx)-1).Draw(t, "which")].Blob
	}
	return seeds.Draw(t, gen.FixedIdents()[rapid.IntRange(0, 1).Draw(t, "id")]).Blob
}

func genCase(t *rapid.T) Case {
	k := rapid.IntRange(0, 19).Draw(t, "inputkind")
	switch {
	case k < 8: // structure-aware mutation of a valid image
		in, class := gen.HostilePE(t, validImage(t))
		return Case{Entry: "image", Input: in, Class: "image/" + class}
	case k < 11: // valid image whose table entry is a hostile blob
		img := validImage(t)
		es, _, err := acode.Table(img)
		blob := validBlob(t)
		var class string
		if rapid.Bool().Draw(t, "structural") {
			other := gen.FixedIdents()[5]
			m, c := gen.MutateCMS(t, blob, gen.MutEnv{OtherCert: other.Cert.Raw, OtherIssuer: other.Cert.RawIssuer, AltKey: gen.Keys()[2], NewContent: []byte{1, 2, 3}})
			if c != "" {
				blob, class = m, "cms:"+c
			}
		} else {
			blob, class = gen.HostileDER(t, blob)
		}
		var blobs [][]byte
		if err == nil {
			for _, e := range es {
				blobs = append(blobs, e.Blob)
			}
		}
		table := acode.BuildTable(blobs)
		if rapid.IntRange(0, 4).Draw(t, "typedentry") == 0 {
			// the new entry is of another WIN_CERTIFICATE type (a UEFI_GUID certificate, PKCS#1, reserved values),
			// and may be shorter than what that type needs
			if rapid.Bool().Draw(t, "shortbody") {
				blob = gen.FillBytes(t, rapid.IntRange(0, 23).Draw(t, "bodylen"))
			}
			typ := rapid.SampledFrom([]uint16{0x0ef1, 0x0ef0, 0x0001, 0x0000, 0xffff}).Draw(t, "wintype")
			e := binary.LittleEndian.AppendUint32(nil, uint32(8+len(blob)))
			e = binary.LittleEndian.AppendUint16(e, 0x0200)
			e = binary.LittleEndian.AppendUint16(e, typ)
			e = append(e, blob...)
			for len(e)%8 != 0 {
				e = append(e, 0)
			}
			table = append(table, e...)
			class = fmt.Sprintf("wintype_%#04x:%s", typ, class)
		} else {
			table = append(table, acode.BuildTable([][]byte{blob})...)
		}
		out, werr := acode.WithTable(img, table)
		if werr != nil {
			out = img
		}
		return Case{Entry: "image", Input: out, Class: "image/table_entry:" + class}
	case k < 17: // hostile signature blobs
		blob := validBlob(t)
		var class string
		if gen.Chance(t, "bulk", 1, 14) {
			// size scaling: a well-formed signature with tens of thousands of elements in one of its collections
			if m, c := gen.BulkCMS(t, blob); c != "" {
				entry := rapid.SampledFrom([]string{"pkcs7", "pkcs7", "authenticode", "descriptor_verify"}).Draw(t, "entry")
				return Case{Entry: entry, Input: m, Class: entry + "/" + c}
			}
		}
		if rapid.Bool().Draw(t, "structural") {
			other := gen.FixedIdents()[5]
			m, c := gen.MutateCMS(t, blob, gen.MutEnv{OtherCert: other.Cert.Raw, OtherIssuer: other.Cert.RawIssuer, AltKey: gen.Keys()[2], NewContent: []byte{1, 2, 3}})
			if c != "" {
				blob, class = m, "cms:"+c
			} else {
				class = "valid"
			}
		} else {
			blob, class = gen.HostileDER(t, blob)
		}
		entry := rapid.SampledFrom([]string{"pkcs7", "pkcs7", "authenticode", "descriptor_verify"}).Draw(t, "entry")
		return Case{Entry: entry, Input: blob, Class: entry + "/" + class}
	default: // uniformly random bytes
		n := rapid.SampledFrom([]int{0, 1, 7, 8, 63, 64, 95, 96, 97, 300, 4096, 65536}).Draw(t, "rlen")
		entry := rapid.SampledFrom([]string{"image", "pkcs7", "authenticode", "descriptor_verify"}).Draw(t, "entry")
		in := gen.FillBytes(t, n)
		if entry == "image" && len(in) >= 2 && rapid.Bool().Draw(t, "mz") {
			in[0], in[1] = 'M', 'Z'
		}
		return Case{Entry: entry, Input: in, Class: entry + "/random_bytes"}
	}
}

func classOf(c string) string {
	for i := 0; i < len(c); i++ {
		if c[i] == '+' {
			return c[:i] + "+..."
		}
	}
	return c
}

func judge(entry string, input []byte, r sandbox.Result) error {
	hx.Class("outcome/" + r.Outcome)
	hx.Class(fmt.Sprintf("stage/%s/%d", entry, r.Stage))
	if !r.Bad() {
		return nil
	}
	attrs := map[string]string{"outcome": r.Outcome, "site": r.Site, "entry": entry}
	if r.Outcome == sandbox.Alloc {
		attrs["alloc_site"] = r.Site
	}
	if r.Outcome == sandbox.Panic {
		attrs["panic_site"] = r.Site
	}
	if r.Outcome == sandbox.Exit {
		attrs["exit_site"] = r.Site
	}
	if id, ok := hx.IsKnown("C13", attrs); ok {
		hx.KnownHit(id)
		return nil
	}
	return fmt.Errorf("entry %s on a %d-byte input: outcome %s at %s: %s (allocated %d bytes, stage %d)", entry, len(input), r.Outcome, r.Site, r.Detail, r.Alloc, r.Stage)
}

func checkCase(c Case) error {
	r, err := pool.Run(c.Entry, c.Input)
	if err != nil {
		return fmt.Errorf("harness: %v", err)
	}
	hx.Class("class/" + classOf(c.Class))
	if r.Stage >= 1 && c.Class != "" {
		hx.NonTrivial([]byte(c.Entry), c.Input)
		if hx.WantSample() && len(c.Input) < 1500 {
			hx.Sample(map[string]any{"entry": c.Entry, "class": c.Class, "input_hex": c.Input, "outcome": r.Outcome, "stage": r.Stage, "alloc": r.Alloc})
		}
	}
	return judge(c.Entry, c.Input, r)
}

var checker = hx.Checker[Case]{Property: "C13", Gen: genCase, Check: checkCase}

func TestC13(t *testing.T) {
	defer pool.Close()
	defer func() { hx.SetExtra("worker_spawns", pool.Spawns) }()
	// fixed hostile constants first (replay tier of shapes that were defects on the pinned tree)
	checker.Rapid(t)
}
func TestC13Replay(t *testing.T) { defer pool.Close(); checker.Replay(t) }

// TestC13Pinned: the sandbox must classify a deliberate panic, exit, allocation
// and hang correctly (the oracle of C13 is the classifier itself).
func TestC13Pinned(t *testing.T) {
	defer pool.Close()
	for entry, want := range map[string]string{"selftest_panic": sandbox.Panic, "selftest_exit": sandbox.Exit, "selftest_alloc": sandbox.Alloc, "selftest_ok": sandbox.Returned, "selftest_error": sandbox.Error} {
		r, err := pool.Run(entry, []byte("x"))
		if err != nil || r.Outcome != want {
			t.Fatalf("ORACLE-SELFCHECK-FAIL sandbox classifies %s as %q (%v), want %q; %+v", entry, r.Outcome, err, want, r)
		}
		if want == sandbox.Exit && r.Site == "" {
			t.Fatalf("ORACLE-SELFCHECK-FAIL exit site not recovered: %+v", r)
		}
		if want == sandbox.Alloc && r.Site == "" {
			t.Fatalf("ORACLE-SELFCHECK-FAIL alloc site not recovered: %+v", r)
		}
	}
	p2 := sandbox.NewPool()
	p2.Deadline = 300 * 1e6 // 300 ms
	defer p2.Close()
	if r, err := p2.Run("selftest_hang", nil); err != nil || r.Outcome != sandbox.Timeout {
		t.Fatalf("ORACLE-SELFCHECK-FAIL sandbox classifies a hang as %q (%v)", r.Outcome, err)
	}
	fmt.Println("ORACLE-SELFCHECK-OK sandbox classifies deliberate panic / log.Fatal exit / 64 MiB allocation / hang / value / error correctly and names exit and allocation sites")
}

func fuzzImage(in []byte) error {
	if len(in) > 1<<16 {
		return nil
	}
	return judge("image", in, sandbox.InProcess("image", in))
}
func fuzzPKCS7(in []byte) error {
	if len(in) > 1<<16 {
		return nil
	}
	if err := judge("pkcs7", in, sandbox.InProcess("pkcs7", in)); err != nil {
		return err
	}
	if err := judge("authenticode", in, sandbox.InProcess("authenticode", in)); err != nil {
		return err
	}
	return judge("descriptor_verify", in, sandbox.InProcess("descriptor_verify", in))
}

func FuzzC13Image(f *testing.F) {
	for _, p := range []string{"authenticode/testdata/test.pecoff.signed", "tests/data/binary/test.pecoff"} {
		if b, ok := hx.RepoFile(p); ok {
			f.Add(b)
		}
	}
	for i := 0; i < 400; i++ {
		if c := rapid.Custom(genCase).Example(i); c.Entry == "image" && len(c.Input) <= 1<<16 {
			f.Add([]byte(c.Input))
		}
	}
	f.Fuzz(hx.FuzzBody("C13", "FuzzC13Image", fuzzImage))
}

func FuzzC13PKCS7(f *testing.F) {
	for _, fx := range seeds.Fixtures() {
		f.Add(fx.Blob)
	}
	for i := 0; i < 400; i++ {
		if c := rapid.Custom(genCase).Example(i); c.Entry != "image" && len(c.Input) <= 1<<16 {
			f.Add([]byte(c.Input))
		}
	}
	f.Fuzz(hx.FuzzBody("C13", "FuzzC13PKCS7", fuzzPKCS7))
}

func TestC13FuzzReplay(t *testing.T) {
	defer pool.Close()
	viaPool := func(entries ...string) func([]byte) error {
		return func(in []byte) error {
			for _, e := range entries {
				r, err := pool.Run(e, in)
				if err != nil {
					return fmt.Errorf("harness: %v", err)
				}
				if err := judge(e, in, r); err != nil {
					return err
				}
			}
			return nil
		}
	}
	hx.FuzzReplay(t, "C13", map[string]func([]byte) error{"FuzzC13Image": viaPool("image"), "FuzzC13PKCS7": viaPool("pkcs7", "authenticode", "descriptor_verify")})
}
