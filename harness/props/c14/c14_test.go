// C14 — malformed variable contents never crash, hang, exit or blow up memory.
package c14

import (
	"bytes"
	"crypto/ecdsa"
	"crypto/ed25519"
	"crypto/elliptic"
	"crypto/x509"
	"encoding/binary"
	"encoding/pem"
	"errors"
	"fmt"
	"go/ast"
	"go/parser"
	"go/token"
	"io"
	"os"
	"path/filepath"
	"runtime/debug"
	"sort"
	"strings"
	"sync"
	"testing"
	"testing/fstest"

	"github.com/spf13/afero"
	"pgregory.net/rapid"

	"github.com/foxboron/go-uefi/efi"
	"github.com/foxboron/go-uefi/efi/attributes"
	"github.com/foxboron/go-uefi/efi/device"
	efifs "github.com/foxboron/go-uefi/efi/fs"
	"github.com/foxboron/go-uefi/efi/signature"
	"github.com/foxboron/go-uefi/efi/util"
	"github.com/foxboron/go-uefi/efivar"
	"github.com/foxboron/go-uefi/efivarfs"
	"github.com/foxboron/go-uefi/efivarfs/testfs"

	"verifharness/gen"
	"verifharness/hx"
	"verifharness/ref/authvar"
	"verifharness/ref/devpath"
	"verifharness/ref/esl"
	"verifharness/ref/guid"
	"verifharness/sandbox"
)

func TestMain(m *testing.M) {
	sandbox.MaybeWorker()
	os.Exit(m.Run())
}

// detRand is a deterministic entropy source for throw-away non-RSA keys.
type detRand struct{}

func (detRand) Read(p []byte) (int, error) {
	for i := range p {
		p[i] = byte(i*7 + 3)
	}
	return len(p), nil
}

// failingReader always fails with an error that is not io.EOF.
type failingReader struct{}

func (failingReader) Read([]byte) (int, error) { return 0, errors.New("c14: injected read failure") }

type raw []byte

func (r raw) Marshal(b *bytes.Buffer) { b.Write(r) }
func (r raw) Bytes() []byte           { return r }

const efidir = "/sys/firmware/efi/efivars/"

func store(name, guid string, content []byte) *efivarfs.Efivarfs {
	return testfs.NewTestFS().With(fstest.MapFS{efidir + name + "-" + guid: {Data: content}}).Open()
}

const global = "8be4df61-93ca-11d2-aa0d-00e098032b8c"
const secdb = "d719b2cb-3d3a-4596-a3bc-dad00e67656f"

func stageErr(err error) (int, error) {
	if err != nil {
		return 0, err
	}
	return 1, nil
}

// concurrently wraps a decoder entry: for one input in three the decoder also runs in two more goroutines at the
// same time. Decoding is a function of the bytes; callers decode from several goroutines (a service parsing boot
// entries, a tool walking variables in parallel), so state shared between calls must not bring the process down.
func concurrently(f sandbox.Entry) sandbox.Entry {
	return func(in []byte) (int, error) {
		if len(in)%3 != 0 || len(in) > 1<<16 {
			return f(in) // (the allocation bound is per call: the big size-scaling inputs run alone)
		}
		var wg sync.WaitGroup
		var mu sync.Mutex
		var crashed any
		start := make(chan struct{})
		// The binary is built with the race detector (happens-before based: two calls that are not ordered by
		// synchronisation are reported whether or not they overlap in time), so one call per goroutine is enough.
		reps := 1
		for g := 0; g < 2; g++ {
			wg.Add(1)
			go func() {
				defer wg.Done()
				defer func() {
					if r := recover(); r != nil {
						mu.Lock()
						crashed = fmt.Sprintf("%v (in a concurrent call)\n%s", r, debug.Stack())
						mu.Unlock()
					}
				}()
				<-start
				for i := 0; i < reps; i++ {
					f(append([]byte{}, in...))
				}
			}()
		}
		close(start)
		for i := 1; i < reps; i++ {
			f(in)
		}
		st, err := f(in)
		wg.Wait()
		if crashed != nil {
			panic(crashed)
		}
		return st, err
	}
}

func init() {
	entries := map[string]sandbox.Entry{
		"sigdb": func(in []byte) (int, error) {
			db, err := signature.ReadSignatureDatabase(bytes.NewReader(in))
			if err == nil {
				_ = db.Bytes()
				var d2 signature.SignatureDatabase
				d2.Unmarshal(bytes.NewBuffer(append([]byte{}, in...)))
			}
			return stageErr(err)
		},
		"siglist": func(in []byte) (int, error) {
			l, err := signature.ReadSignatureList(bytes.NewReader(in))
			if err == nil && l != nil {
				_ = l.Bytes()
			}
			return stageErr(err)
		},
		"sigdata": func(in []byte) (int, error) {
			if len(in) < 4 {
				return 0, fmt.Errorf("short")
			}
			_, err := signature.ReadSignatureData(bytes.NewReader(in[4:]), binary.LittleEndian.Uint32(in))
			return stageErr(err)
		},
		"descriptor": func(in []byte) (int, error) {
			a, err := signature.ReadEFIVariableAuthencation2(bytes.NewReader(in))
			if err == nil {
				var b bytes.Buffer
				a.Marshal(&b)
			}
			var u signature.EFIVariableAuthentication2
			u.Unmarshal(bytes.NewBuffer(append([]byte{}, in...)))
			return stageErr(err)
		},
		"wincert": func(in []byte) (int, error) {
			_, err := signature.ReadWinCertificate(bytes.NewReader(in))
			_, err2 := signature.ReadWinCertificateUEFIGUID(bytes.NewReader(in))
			if err == nil || err2 == nil {
				return 1, nil
			}
			return 0, err
		},
		"loadoption": func(in []byte) (int, error) {
			var o device.EFILoadOption
			err := o.Unmarshal(bytes.NewBuffer(append([]byte{}, in...)))
			if err != nil {
				return 0, err
			}
			stage := 1
			for _, n := range o.FilePath {
				if n != nil {
					_ = n.Format()
					stage = 2
				}
			}
			return stage, nil
		},
		"devicepath": func(in []byte) (int, error) {
			ns, err := device.ParseDevicePath(bytes.NewReader(in))
			if err != nil {
				return 0, err
			}
			for _, n := range ns {
				if n != nil {
					_ = n.Format()
				}
			}
			return 1, nil
		},
		"utf16": func(in []byte) (int, error) {
			_, err := util.ParseUtf16Var(bytes.NewBuffer(append([]byte{}, in...)))
			var es efivar.Efistring
			err2 := es.Unmarshal(bytes.NewBuffer(append([]byte{}, in...)))
			_ = util.ReadNullString(bytes.NewReader(in))
			if err == nil || err2 == nil {
				return 1, nil
			}
			return 0, err
		},
		"bootorder": func(in []byte) (int, error) {
			e := store("BootOrder", global, in)
			names := e.GetBootOrder()
			for i, n := range names {
				if i >= 256 {
					break // the look-ups are the harness's own doing (one file-system access each), not the decoder's
				}
				e.GetBootEntry(n)
			}
			if names == nil {
				return 0, fmt.Errorf("no boot order")
			}
			return 1, nil
		},
		"bootentry_var": func(in []byte) (int, error) {
			e := store("Boot0001", global, in)
			o, err := e.GetBootEntry("Boot0001")
			if err == nil {
				for _, n := range o.FilePath {
					if n != nil {
						_ = n.Format()
					}
				}
			}
			return stageErr(err)
		},
		"sigsupport": func(in []byte) (int, error) {
			_, err := signature.GetSupportedSignatures(bytes.NewReader(in))
			return stageErr(err)
		},
		"varfile": func(in []byte) (int, error) {
			mem := afero.NewMemMapFs()
			afero.WriteFile(mem, "/v/X-"+global, in, 0644)
			fs := efivarfs.NewFS()
			fs.SetFS(mem)
			_, _, err := fs.ReadEfivarsFile("/v/X-" + global)
			saved := efifs.Fs
			efifs.SetFS(mem)
			_, _, err2 := attributes.ReadEfivarsFile("/v/X-" + global)
			efifs.SetFS(saved)
			_, _, err3 := attributes.ParseEfivars(bytes.NewReader(in), len(in))
			if err == nil && err2 == nil && err3 == nil {
				return 1, nil
			}
			if err == nil {
				err = err2
			}
			if err == nil {
				err = err3
			}
			return 0, err
		},
		"typed_getters": func(in []byte) (int, error) {
			var firstErr error
			stage := 0
			note := func(err error) {
				if err == nil {
					stage = 1
				} else if firstErr == nil {
					firstErr = err
				}
			}
			_, err := store("db", secdb, in).Getdb()
			note(err)
			_, err = store("dbx", secdb, in).Getdbx()
			note(err)
			_, err = store("PK", global, in).GetPK()
			note(err)
			_, err = store("KEK", global, in).GetKEK()
			note(err)
			_, err = store("SecureBoot", global, in).GetSecureBoot()
			note(err)
			_, err = store("SetupMode", global, in).GetSetupMode()
			note(err)
			_, err = store("LoaderEntrySelected", "4a67b082-0a4c-41cf-b6c7-440b29bb8c4f", in).GetLoaderEntrySelected()
			note(err)
			return stage, firstErr
		},
		"legacy_getters": func(in []byte) (int, error) {
			// the package-level API of efi/: the same content as every variable file it knows how to read
			mem := afero.NewMemMapFs()
			globals, secs := []string{"BootOrder", "Boot0001", "PK", "KEK", "SetupMode", "SecureBoot"}, []string{"db", "dbx"}
			if len(in) > 1<<16 {
				// a size-scaling input goes into one variable only (the allocation bounds are per request, and nine
				// copies of a megabyte decoded by nine getters are the harness's doing)
				globals, secs = [][]string{{"BootOrder"}, {"Boot0001"}, {"PK"}}[len(in)%3], nil
			} else {
				afero.WriteFile(mem, efidir+"LoaderEntrySelected-4a67b082-0a4c-41cf-b6c7-440b29bb8c4f", in, 0644)
			}
			for _, n := range globals {
				afero.WriteFile(mem, efidir+n+"-"+global, in, 0644)
			}
			for _, n := range secs {
				afero.WriteFile(mem, efidir+n+"-"+secdb, in, 0644)
			}
			saved, savedDir := efifs.Fs, attributes.Efivars
			efifs.SetFS(mem)
			attributes.Efivars = strings.TrimSuffix(efidir, "/")
			defer func() { efifs.SetFS(saved); attributes.Efivars = savedDir }()
			stage := 0
			for i, n := range efi.GetBootOrder() {
				if i >= 64 {
					break
				}
				efi.GetBootEntry(n)
			}
			if _, err := efi.GetBootEntry("Boot0001"); err == nil {
				stage = 1
			}
			efi.GetSetupMode()
			efi.GetSecureBoot()
			for _, f := range []func() (*signature.SignatureDatabase, error){efi.GetPK, efi.GetKEK, efi.Getdb, efi.Getdbx} {
				if db, err := f(); err == nil && db != nil {
					_ = db.Bytes()
					stage = 1
				}
			}
			efi.GetCurrentlyBootedEntry()
			// ... and the same calls when the variables do not exist at all
			efifs.SetFS(afero.NewMemMapFs())
			efi.GetBootOrder()
			efi.GetBootEntry("Boot0001")
			efi.GetSetupMode()
			efi.GetSecureBoot()
			efi.GetPK()
			efi.Getdbx()
			efi.GetCurrentlyBootedEntry()
			return stage, nil
		},
		"append_data": func(in []byte) (int, error) {
			// data handed to the building API as it comes out of a file: DER or PEM text of whatever kind
			owner := util.EFIGUID{Data1: 0x11223344, Data2: 0x5566, Data3: 0x7788, Data4: [8]byte{1, 2, 3, 4, 5, 6, 7, 8}}
			db := signature.NewSignatureDatabase()
			err := db.Append(signature.CERT_X509_GUID, owner, in)
			if err == nil {
				_ = db.Bytes()
			}
			db.Append(signature.CERT_SHA256_GUID, owner, in)
			l := signature.NewSignatureList(signature.CERT_X509_GUID)
			if lerr := l.AppendBytes(owner, in); lerr == nil {
				_ = l.Bytes()
			}
			db.AppendSignature(signature.CERT_X509_GUID, &signature.SignatureData{Owner: owner, Data: in})
			_ = db.Bytes()
			return stageErr(err)
		},
		"readkey": func(in []byte) (int, error) {
			_, err := util.ReadKey(in)
			return stageErr(err)
		},
		"readcert": func(in []byte) (int, error) {
			_, err := util.ReadCert(in)
			return stageErr(err)
		},
		"guid": func(in []byte) (int, error) {
			g := util.StringToGUID(string(in))
			if g != nil {
				_ = g.Format()
			}
			b := util.BytesToGUID(in)
			if b != nil {
				_ = b.Format()
				_ = util.GUIDToBytes(b)
			}
			return 1, nil
		},
		// decoders that take an io.Reader, fed by a reader that fails with a non-EOF error after k bytes
		// (input = 2 bytes little-endian k, then the data; k is taken modulo len(data)+1)
		"reader_fault": func(in []byte) (int, error) {
			if len(in) < 2 {
				return 0, errors.New("short")
			}
			data := in[2:]
			k := (int(in[0]) | int(in[1])<<8) % (len(data) + 1)
			mk := func() io.Reader { return io.MultiReader(bytes.NewReader(data[:k]), failingReader{}) }
			stage := 0
			if _, err := device.ParseDevicePath(mk()); err == nil {
				stage = 1
			}
			signature.ReadSignatureDatabase(mk())
			signature.ReadSignatureList(mk())
			signature.ReadEFIVariableAuthencation2(mk())
			signature.ReadWinCertificate(mk())
			signature.GetSupportedSignatures(mk())
			util.ReadNullString(mk())
			return stage, nil
		},
		"testfs_write": func(in []byte) (int, error) {
			var firstErr error
			for _, v := range []efivar.Efivar{efivar.PK, efivar.KEK, efivar.Db, efivar.Dbx} {
				e := testfs.NewTestFS().Open()
				if err := e.WriteVar(v, raw(in)); err != nil && firstErr == nil {
					firstErr = err
				}
			}
			return stageErr(firstErr)
		},
	}
	// entries that touch process-wide settings of the library (the package-level file system) stay sequential
	for name, f := range entries {
		if name != "varfile" && name != "reader_fault" && name != "testfs_write" && name != "legacy_getters" {
			entries[name] = concurrently(f)
		}
	}
	sandbox.Register(entries)
}

type Case struct {
	Entry string
	Input hx.Hex
	Class string
}

var pool = sandbox.NewPool()

func pemOf(typ string, b []byte) []byte { return pem.EncodeToMemory(&pem.Block{Type: typ, Bytes: b}) }

// validFor returns a valid encoding for the entry point.
func validFor(t *rapid.T, entry string) []byte {
	attrs := binary.LittleEndian.AppendUint32(nil, rapid.SampledFrom([]uint32{7, 6, 0x27, 0x67, 0}).Draw(t, "attrs"))
	switch entry {
	case "sigdb", "siglist":
		return esl.Encode(gen.ESLStream(3).Draw(t, "db"))
	case "sigdata":
		d := gen.SizedBytes(100, 0, 32).Draw(t, "sd")
		return append(binary.LittleEndian.AppendUint32(nil, uint32(16+len(d))), append(gen.Owner().Draw(t, "o").Wire(), d...)...)
	case "descriptor":
		var ts [16]byte
		copy(ts[:], gen.FillBytes(t, 16))
		ct := authvar.PKCS7GUID
		if rapid.Bool().Draw(t, "othercerttype") {
			ct = gen.GUID().Draw(t, "certtype") // e.g. EFI_CERT_TYPE_RSA2048_SHA256_GUID: structurally fine, another type
		}
		return append(authvar.EncodeAuth2(ts, 0x0200, 0x0ef1, ct, gen.SizedBytes(300, 0, 1).Draw(t, "cd")), esl.Encode(gen.ESLStream(2).Draw(t, "payload"))...)
	case "wincert":
		return authvar.EncodeWinCert(0x0200, rapid.SampledFrom([]uint16{2, 0x0ef0, 0x0ef1}).Draw(t, "wt"), gen.SizedBytes(300, 0, 16, 17).Draw(t, "body"))
	case "loadoption", "devicepath", "bootentry_var":
		o := devpath.Option{Attributes: rapid.Uint32().Draw(t, "oa"), Description: gen.UnicodeString(20).Draw(t, "desc")}
		for i := rapid.IntRange(0, 4).Draw(t, "nn"); i > 0; i-- {
			n := devpath.Node{Kind: rapid.SampledFrom([]string{"pci", "acpi", "hd", "file", "fwfile", "usb"}).Draw(t, "nk")}
			n.PartNumber = uint32(rapid.IntRange(0, 3).Draw(t, "pn"))
			n.MBRType, n.SigType = byte(rapid.IntRange(0, 3).Draw(t, "mt")), byte(rapid.IntRange(0, 3).Draw(t, "st"))
			n.Path = gen.UnicodeString(12).Draw(t, "p")
			if rapid.IntRange(0, 2).Draw(t, "rawnode") == 0 {
				// any node type and subtype the specification knows (and some it does not), with a body of any length;
				// one time in three the length field lies (too small for the fixed part of the node, or too large)
				n = devpath.Node{Kind: "raw", Type: rapid.SampledFrom([]byte{1, 2, 3, 4, 5, 0x7f, 0, 6, 0xff}).Draw(t, "ntype"), Sub: rapid.SampledFrom([]byte{1, 2, 3, 3, 4, 4, 5, 6, 7, 8, 9, 10, 10, 10, 11, 12, 13, 14, 15, 18, 23, 24, 0, 32, 255}).Draw(t, "nsub"), // vendor-defined nodes (hardware 4, media 3, messaging 10) more often: a GUID plus data of any length
					Body: gen.SizedBytes(48, 0, 2, 8, 16, 20, 38).Draw(t, "nbody")}
				if rapid.Bool().Draw(t, "node_with_a_variable_tail") {
					// the node kinds whose body is a fixed part followed by strings or data of any length (expanded ACPI:
					// three NUL-terminated strings; URI; file path; vendor-defined; iSCSI; DNS): the fixed part as the
					// specification sizes it, then 0..4 short strings, the last one with or without its terminator
					k := rapid.SampledFrom([]struct {
						t, s  byte
						fixed int
					}{{2, 2, 12}, {2, 2, 12}, {3, 24, 0}, {4, 4, 0}, {3, 10, 16}, {1, 4, 16}, {4, 3, 16}, {3, 19, 14}, {3, 31, 1}, {2, 1, 8}, {2, 3, 4}}).Draw(t, "tailkind")
					n.Type, n.Sub = k.t, k.s
					body := gen.FillBytes(t, k.fixed)
					ns := rapid.IntRange(0, 4).Draw(t, "nstrings")
					for i := 0; i < ns; i++ {
						body = append(body, []byte(rapid.StringMatching(`[A-Z0-9]{0,6}`).Draw(t, "tailstr"))...)
						if i < ns-1 || rapid.IntRange(0, 2).Draw(t, "terminated") != 0 {
							body = append(body, 0)
						}
					}
					n.Body = body
				}
				if rapid.IntRange(0, 2).Draw(t, "lenlies") == 0 {
					n.LenField = rapid.SampledFrom([]uint16{1, 2, 3, 4, 5, 6, 8, 12, 16, 19, 20, 21, 24, 42, 0x100, 0x7fff, 0xffff}).Draw(t, "nlen")
				}
			}
			o.Nodes = append(o.Nodes, n)
		}
		switch entry {
		case "devicepath":
			return o.PathList()
		case "bootentry_var":
			return append(attrs, o.Encode()...)
		}
		return o.Encode()
	case "utf16":
		return util.MarshalUtf16Var(gen.UnicodeString(30).Draw(t, "s"))
	case "bootorder":
		b := attrs
		for i := rapid.IntRange(0, 8).Draw(t, "nbo"); i > 0; i-- {
			b = binary.LittleEndian.AppendUint16(b, rapid.Uint16().Draw(t, "bo"))
		}
		return b
	case "sigsupport":
		var b []byte
		for i := rapid.IntRange(0, 6).Draw(t, "ng"); i > 0; i-- {
			b = append(b, gen.GUID().Draw(t, "g").Wire()...)
		}
		return b
	case "varfile":
		return append(attrs, gen.SizedBytes(200, 0, 1).Draw(t, "val")...)
	case "legacy_getters":
		switch rapid.IntRange(0, 4).Draw(t, "lk") {
		case 0:
			return append(attrs, esl.Encode(gen.ESLStream(2).Draw(t, "db"))...)
		case 1:
			return append(attrs, byte(rapid.IntRange(0, 2).Draw(t, "bool")))
		case 2:
			b := attrs
			for i := rapid.IntRange(0, 8).Draw(t, "nbo"); i > 0; i-- {
				b = binary.LittleEndian.AppendUint16(b, rapid.Uint16().Draw(t, "bo"))
			}
			return b
		case 3:
			o := devpath.Option{Attributes: rapid.Uint32().Draw(t, "oa"), Description: gen.UnicodeString(20).Draw(t, "desc"), Nodes: []devpath.Node{{Kind: "file", Path: "\\EFI\\x.efi"}}}
			return append(attrs, o.Encode()...)
		default:
			return append(attrs, util.MarshalUtf16Var(gen.UnicodeString(12).Draw(t, "s"))...)
		}
	case "typed_getters":
		switch rapid.IntRange(0, 2).Draw(t, "tk") {
		case 0:
			return append(attrs, esl.Encode(gen.ESLStream(2).Draw(t, "db"))...)
		case 1:
			return append(attrs, byte(rapid.IntRange(0, 2).Draw(t, "bool")))
		default:
			return append(attrs, util.MarshalUtf16Var(gen.UnicodeString(12).Draw(t, "s"))...)
		}
	case "append_data":
		// a certificate as DER or inside a PEM block of one of the kinds tools write, whole or cut short, or a body
		// whose DER length field promises more (or absurdly more) than there is
		cert := gen.FixedIdents()[rapid.IntRange(0, 3).Draw(t, "cert")].Cert.Raw
		var body []byte
		switch rapid.IntRange(0, 6).Draw(t, "body") {
		case 0, 1:
			body = cert
		case 2:
			body = cert[:rapid.IntRange(0, len(cert)-1).Draw(t, "cut")]
		case 3:
			body = cert[:rapid.IntRange(0, 6).Draw(t, "cuthead")]
		case 4:
			body = append([]byte{0x30, 0x84, 0xff, 0xff, 0xff, 0xff}, cert[4:]...)
		case 5:
			body = append([]byte{0x30, byte(0x80 | rapid.IntRange(0, 127).Draw(t, "lenlen"))}, gen.FillBytes(t, rapid.IntRange(0, 12).Draw(t, "lenbytes"))...)
		default:
			// trust settings the way `openssl x509 -trustout` appends them behind the certificate
			body = append(append([]byte{}, cert...), 0x30, 0x0c, 0x30, 0x0a, 0x06, 0x08, 0x2b, 0x06, 0x01, 0x05, 0x05, 0x07, 0x03, 0x01)
		}
		if rapid.IntRange(0, 4).Draw(t, "der") == 0 {
			return body
		}
		typ := rapid.SampledFrom([]string{"CERTIFICATE", "CERTIFICATE", "TRUSTED CERTIFICATE", "X509 CERTIFICATE", "PKCS7", "CERTIFICATE REQUEST", "PRIVATE KEY", "certificate", ""}).Draw(t, "pemtype")
		blk := &pem.Block{Type: typ, Bytes: body}
		if rapid.IntRange(0, 5).Draw(t, "pemheaders") == 0 {
			blk.Headers = map[string]string{"Proc-Type": "4,ENCRYPTED"}
		}
		out := pem.EncodeToMemory(blk)
		if rapid.IntRange(0, 3).Draw(t, "text_around") == 0 {
			out = append(append([]byte("subject=CN = verif\n"), out...), []byte("trailing text\n")...)
		}
		return out
	case "readkey", "readcert":
		// one or several PEM blocks in any order (a combined key + certificate file), with text around them
		k, _ := x509.MarshalPKCS8PrivateKey(gen.Keys()[rapid.IntRange(0, 1).Draw(t, "k")])
		ek, _ := ecdsa.GenerateKey(elliptic.P256(), detRand{})
		ekd, _ := x509.MarshalPKCS8PrivateKey(ek)
		_, edk, _ := ed25519.GenerateKey(detRand{})
		edd, _ := x509.MarshalPKCS8PrivateKey(edk)
		blocks := [][]byte{pemOf("PRIVATE KEY", k), pemOf("PRIVATE KEY", ekd), pemOf("PRIVATE KEY", edd), pemOf("RSA PRIVATE KEY", x509.MarshalPKCS1PrivateKey(gen.Keys()[0])), pemOf("CERTIFICATE", gen.FixedIdents()[0].Cert.Raw), pemOf("CERTIFICATE", gen.FixedIdents()[1].Cert.Raw), pemOf("X509 CRL", []byte{1, 2, 3}), []byte("some text\n"), []byte("-----BEGIN CERTIFICATE-----\nnot base64\n-----END CERTIFICATE-----\n")}
		var out []byte
		if entry == "readkey" {
			out = append(out, blocks[rapid.IntRange(0, 3).Draw(t, "keykind")]...)
		} else {
			out = append(out, blocks[4]...)
		}
		if rapid.Bool().Draw(t, "multiblock") {
			out = nil
			for i := rapid.IntRange(1, 4).Draw(t, "nblocks"); i > 0; i-- {
				out = append(out, blocks[rapid.IntRange(0, len(blocks)-1).Draw(t, "block")]...)
			}
		}
		return out
	case "reader_fault":
		data := validFor(t, rapid.SampledFrom([]string{"devicepath", "devicepath", "sigdb", "descriptor", "wincert", "utf16"}).Draw(t, "rfkind"))
		k := rapid.IntRange(0, len(data)).Draw(t, "failafter")
		return append([]byte{byte(k), byte(k >> 8)}, data...)
	case "guid":
		return []byte(gen.GUID().Draw(t, "g").Text())
	case "testfs_write":
		if rapid.Bool().Draw(t, "asdb") {
			return esl.Encode(gen.ESLStream(2).Draw(t, "db"))
		}
		var ts [16]byte
		return append(authvar.EncodeAuth2(ts, 0x0200, 0x0ef1, authvar.PKCS7GUID, gen.SizedBytes(60, 0, 1).Draw(t, "cd")), esl.Encode(gen.ESLStream(1).Draw(t, "payload"))...)
	}
	return nil
}

var hostile32 = []uint32{0, 1, 2, 7, 8, 15, 16, 17, 23, 24, 27, 28, 29, 47, 48, 0x7f, 0xff, 0x100, 0xffff, 0x10000, 0x7fffffff, 0x80000000, 0xfffffff0, 0xffffffff}

// mutate derives a malformed input from a valid encoding.
func mutate(t *rapid.T, valid []byte) ([]byte, string) {
	b := append([]byte{}, valid...)
	if len(b) > 0 && gen.Chance(t, "bulk", 1, 40) {
		// size scaling: the valid encoding repeated up to some hundred kilobytes or a megabyte (many lists, many
		// nodes, many entries, a very long string): linear decoders take milliseconds
		target := rapid.SampledFrom([]int{1 << 16, 1 << 19, 3 << 19}).Draw(t, "bulksize")
		unit := b
		if rapid.Bool().Draw(t, "strip_terminator") && len(unit) > 4 {
			unit = unit[:len(unit)-rapid.SampledFrom([]int{2, 4}).Draw(t, "termlen")] // e.g. without the NUL / the end node, so that the repetition continues the same object
		}
		out := make([]byte, 0, target+len(b))
		for len(out) < target {
			out = append(out, unit...)
		}
		return append(out, b...), "bulk"
	}
	switch k := rapid.IntRange(0, 13).Draw(t, "mkind"); {
	case k == 0:
		return b, "valid"
	case k <= 3:
		if len(b) == 0 {
			return b, "truncate"
		}
		return b[:rapid.IntRange(0, len(b)-1).Draw(t, "cut")], "truncate"
	case k <= 6:
		if len(b) < 4 {
			return b, "size_field"
		}
		off := rapid.IntRange(0, len(b)-4).Draw(t, "off")
		if rapid.Bool().Draw(t, "aligned") {
			off &^= 3
		}
		binary.LittleEndian.PutUint32(b[off:], rapid.SampledFrom(hostile32).Draw(t, "h32"))
		return b, "size_field"
	case k == 7:
		if len(b) < 2 {
			return b, "u16_field"
		}
		off := rapid.IntRange(0, len(b)-2).Draw(t, "off16")
		binary.LittleEndian.PutUint16(b[off:], rapid.SampledFrom([]uint16{0, 1, 3, 4, 5, 0x7f, 0xff, 0x100, 0xffff, 0x0200, 0x0ef1}).Draw(t, "h16"))
		return b, "u16_field"
	case k == 8:
		for j := rapid.IntRange(1, 5).Draw(t, "nfl"); j > 0 && len(b) > 0; j-- {
			b[rapid.IntRange(0, len(b)-1).Draw(t, "fp")] ^= byte(rapid.IntRange(1, 255).Draw(t, "fx"))
		}
		return b, "noise"
	case k == 9:
		return append(b, gen.FillBytes(t, rapid.IntRange(1, 40).Draw(t, "tail"))...), "trailing_garbage"
	case k == 10:
		return nil, "empty"
	case k == 12:
		// longer than any valid encoding while staying inside the format's own alphabet: the input twice,
		// or a part of it repeated in place
		if len(b) == 0 || rapid.Bool().Draw(t, "twice") {
			return append(b, b...), "doubled"
		}
		i := rapid.IntRange(0, len(b)-1).Draw(t, "from")
		j := rapid.IntRange(i+1, len(b)).Draw(t, "to")
		at := rapid.IntRange(0, len(b)).Draw(t, "at")
		out := append(append(append([]byte{}, b[:at]...), b[i:j]...), b[at:]...)
		return out, "self_splice"
	case k == 13:
		// one byte more or less at either end
		switch rapid.IntRange(0, 3).Draw(t, "edge") {
		case 0:
			if len(b) > 0 {
				return append(b, b[len(b)-1]), "one_more_at_the_end"
			}
		case 1:
			if len(b) > 0 {
				return append([]byte{b[0]}, b...), "one_more_at_the_start"
			}
		case 2:
			if len(b) > 0 {
				return b[1:], "one_less_at_the_start"
			}
		}
		if len(b) > 0 {
			return b[:len(b)-1], "one_less_at_the_end"
		}
		return b, "empty"
	default:
		n := rapid.SampledFrom([]int{1, 2, 3, 4, 5, 15, 16, 17, 24, 28, 40, 300, 4096, 65536}).Draw(t, "rlen")
		return gen.FillBytes(t, n), "random_bytes"
	}
}

func genCase(t *rapid.T) Case {
	names := sandbox.EntryNames()
	var real []string
	for _, n := range names {
		if !strings.HasPrefix(n, "selftest_") {
			real = append(real, n)
		}
	}
	entry := rapid.SampledFrom(real).Draw(t, "entry")
	valid := validFor(t, entry)
	if off, isESL := map[string]int{"sigdb": 0, "siglist": 0, "typed_getters": 4, "legacy_getters": 4, "testfs_write": 0}[entry]; isESL && len(valid) >= off+28+16 && rapid.IntRange(0, 7).Draw(t, "countlie") == 0 {
		// the first list announces far more signatures than the input holds, consistently (ListSize = 28 + n x
		// SignatureSize, with the SignatureSize the list really has): a decoder that sizes anything by that count
		b := append([]byte{}, valid...)
		size := binary.LittleEndian.Uint32(b[off+24:])
		if size >= 16 && size < 1<<20 {
			n := rapid.SampledFrom([]uint32{1 << 16, 1 << 20, 1 << 24, (0xffffffff - 28) / size}).Draw(t, "liecount")
			binary.LittleEndian.PutUint32(b[off+16:], 28+binary.LittleEndian.Uint32(b[off+20:])+n*size)
			return Case{Entry: entry, Input: b, Class: "announced_signature_count"}
		}
	}
	if off, isESL := map[string]int{"sigdb": 0, "siglist": 0, "typed_getters": 4, "legacy_getters": 4}[entry]; isESL && len(valid) >= off && gen.Chance(t, "eslshape", 1, 24) {
		prefix := append([]byte{}, valid[:off]...)
		if off != 0 || rapid.IntRange(0, 2).Draw(t, "wrap") != 0 {
			// well-formed lists followed by a header whose ListSize makes a 32-bit running offset wrap back to an
			// earlier list (or to just short of the end): a walker that adds sizes in uint32 never gets past it
			var ls1 []esl.List
			for _, l := range gen.ESLStream(2).Draw(t, "wrapbody") {
				if l.Type != esl.ExtMgm && len(l.Entries) > 0 {
					ls1 = append(ls1, l)
				}
			}
			if len(ls1) == 0 {
				ls1 = []esl.List{{Type: esl.SHA256, Size: 48, Entries: []esl.Entry{{Owner: gen.Owners[0], Data: gen.FillBytes(t, 32)}}}}
			}
			body := esl.Encode(ls1)
			L := uint32(len(body))
			ls := rapid.SampledFrom([]uint32{-L, -L, -L, -L + 28, 28 - L, 0xffffffe4, 0xfffffffc}).Draw(t, "wrapsize")
			hdr := append([]byte{}, esl.SHA256.Wire()...)
			hdr = binary.LittleEndian.AppendUint32(hdr, ls)
			hdr = binary.LittleEndian.AppendUint32(hdr, 0)
			hdr = binary.LittleEndian.AppendUint32(hdr, 48)
			return Case{Entry: entry, Input: append(append(prefix, body...), hdr...), Class: "list_size_wraps_32_bits"}
		}
		// one list with tens of thousands of distinct hashes (a real revocation list is one list): quadratic work per
		// list shows here and nowhere else
		n := rapid.SampledFrom([]int{30000, 80000}).Draw(t, "nhashes")
		out := append(prefix, esl.SHA256.Wire()...)
		out = binary.LittleEndian.AppendUint32(out, uint32(28+48*n))
		out = binary.LittleEndian.AppendUint32(out, 0)
		out = binary.LittleEndian.AppendUint32(out, 48)
		seed := rapid.Uint64().Draw(t, "hashseed") | 1
		owner := gen.Owners[0].Wire()
		for i := 0; i < n; i++ {
			out = append(out, owner...)
			for j := 0; j < 4; j++ {
				seed ^= seed << 13
				seed ^= seed >> 7
				seed ^= seed << 17
				out = binary.LittleEndian.AppendUint64(out, seed)
			}
		}
		return Case{Entry: entry, Input: out, Class: "one_list_of_many_distinct_hashes"}
	}
	if entry == "append_data" && rapid.Bool().Draw(t, "asis") {
		return Case{Entry: entry, Input: valid, Class: "data_as_it_comes_from_a_file"}
	}
	if off, isESL := map[string]int{"sigdb": 0, "siglist": 0, "typed_getters": 4, "legacy_getters": 4, "testfs_write": 0}[entry]; isESL && len(valid) >= off && rapid.IntRange(0, 7).Draw(t, "headergrid") == 0 {
		// a list header put together field by field from the values that matter for each: every signature type the
		// specification names (handled by the library or not) with the boundary values of the three sizes
		typ := rapid.SampledFrom([]guid.G{esl.X509, esl.SHA256, esl.SHA1, esl.SHA384, esl.SHA512, esl.RSA2048, esl.ExtMgm,
			{D1: 0x0b6e5233, D2: 0xa65c, D3: 0x44c9, D4: [8]byte{0x94, 0x07, 0xd9, 0xab, 0x83, 0xbf, 0xc8, 0xbd}}, // SHA224
			{D1: 0x3bd2a492, D2: 0x96c0, D3: 0x4079, D4: [8]byte{0xb4, 0x20, 0xfc, 0xf9, 0x8e, 0xf1, 0x03, 0xed}}, // X509_SHA256
			{D1: 0x7076876e, D2: 0x80c2, D3: 0x4ee6, D4: [8]byte{0xaa, 0xd2, 0x28, 0xb3, 0x49, 0xa6, 0x86, 0x5b}}, // X509_SHA384
			{D1: 0x446dbf63, D2: 0x2502, D3: 0x4cda, D4: [8]byte{0xbc, 0xfa, 0x24, 0x65, 0xd2, 0xb0, 0xfe, 0x9d}}, // X509_SHA512
		}).Draw(t, "gridtype")
		sig := rapid.SampledFrom([]uint32{0, 0, 0, 1, 15, 16, 17, 36, 48, 64, 80, 0x80000000, 0xffffffff}).Draw(t, "gridsigsize")
		hdr := rapid.SampledFrom([]uint32{0, 0, 0, 1, 16, 28, 0xffffffff}).Draw(t, "gridhdrsize")
		bodyLen := rapid.SampledFrom([]int{0, 0, 1, 16, 48, 96, 200}).Draw(t, "gridbody")
		ls := rapid.SampledFrom([]uint32{0, 27, 28, 28, 29, 44, uint32(28 + bodyLen), uint32(28 + bodyLen), uint32(28 + bodyLen + 1), 0xffffffff}).Draw(t, "gridlistsize")
		out := append(append([]byte{}, valid[:off]...), typ.Wire()...)
		out = binary.LittleEndian.AppendUint32(out, ls)
		out = binary.LittleEndian.AppendUint32(out, hdr)
		out = binary.LittleEndian.AppendUint32(out, sig)
		out = append(out, gen.FillBytes(t, bodyLen)...)
		return Case{Entry: entry, Input: out, Class: "list_header_from_boundary_values"}
	}
	in, class := mutate(t, valid)
	if rapid.IntRange(0, 9).Draw(t, "second") == 0 {
		var c2 string
		in, c2 = mutate(t, in)
		class += "+" + c2
	}
	return Case{Entry: entry, Input: in, Class: class}
}

func judge(entry string, input []byte, r sandbox.Result) error {
	hx.Class("outcome/" + r.Outcome)
	if !r.Bad() {
		return nil
	}
	attrs := map[string]string{"outcome": r.Outcome, "site": r.Site, "entry": entry}
	switch r.Outcome {
	case sandbox.Alloc:
		attrs["alloc_site"] = r.Site
	case sandbox.Panic:
		attrs["panic_site"] = r.Site
	case sandbox.Exit:
		attrs["exit_site"] = r.Site
	}
	if id, ok := hx.IsKnown("C14", attrs); ok {
		hx.KnownHit(id)
		return nil
	}
	return fmt.Errorf("entry %s on a %d-byte input: outcome %s at %s: %s (allocated %d bytes)", entry, len(input), r.Outcome, r.Site, r.Detail, r.Alloc)
}

func checkCase(c Case) error {
	r, err := pool.Run(c.Entry, c.Input)
	if err != nil {
		return fmt.Errorf("harness: %v", err)
	}
	hx.Class("entry/" + c.Entry)
	cl := c.Class
	if i := strings.Index(cl, "+"); i >= 0 {
		cl = "combined"
	}
	hx.Class("class/" + cl)
	if c.Class != "valid" && len(c.Input) >= 4 {
		hx.NonTrivial([]byte(c.Entry), c.Input)
		if hx.WantSample() && len(c.Input) < 300 {
			hx.Sample(map[string]any{"entry": c.Entry, "class": c.Class, "input_hex": c.Input, "outcome": r.Outcome})
		}
	}
	return judge(c.Entry, c.Input, r)
}

var checker = hx.Checker[Case]{Property: "C14", Gen: genCase, Check: checkCase}

// fixed inputs: shapes that were defects on the pinned tree + one per entry point
var fixed = []Case{
	{Entry: "utf16", Input: nil, Class: "empty"},
	{Entry: "descriptor", Input: make([]byte, 15), Class: "short"},
	{Entry: "descriptor", Input: append(make([]byte, 16), 0x10, 0, 0, 0, 0, 2, 0xf1, 0x0e, 1, 2, 3, 4, 5, 6, 7, 8), Class: "body_shorter_than_guid"},
	{Entry: "descriptor", Input: append(make([]byte, 16), append([]byte{0x18, 0, 0, 0, 0, 2, 0x02, 0x00}, make([]byte, 16)...)...), Class: "other_certificate_type"},
	{Entry: "wincert", Input: []byte{4, 0, 0, 0, 0, 2, 2, 0}, Class: "dwLength_4"},
	{Entry: "sigdb", Input: append(append(esl.SHA256.Wire(), 0x2c, 0, 0, 0, 0, 0, 0, 0, 8, 0, 0, 0), make([]byte, 16)...), Class: "signature_size_8"},
	{Entry: "devicepath", Input: []byte{1, 1, 6, 0, 1, 2}, Class: "no_end_node"},
	{Entry: "devicepath", Input: []byte{2, 2, 4, 0}, Class: "expanded_acpi"},
	{Entry: "devicepath", Input: []byte{3, 10, 4, 0, 1}, Class: "truncated_vendor"},
}

func TestC14(t *testing.T) {
	defer pool.Close()
	sites := terminationSites()
	hx.SetExtra("static_termination_call_sites", sites)
	for i, c := range fixed {
		hx.Eval()
		hx.Class("fixed_input")
		if err := hx.Safely(func() error { return checkCase(c) }); err != nil {
			hx.WriteFailure("C14", c, fmt.Sprintf("fixed input %d: %v", i, err))
			hx.Dump()
			t.Fatalf("C14 violated by fixed input %d (%s/%s): %v", i, c.Entry, c.Class, err)
		}
	}
	checker.Rapid(t)
}
func TestC14Replay(t *testing.T) { defer pool.Close(); checker.Replay(t) }

func TestC14Pinned(t *testing.T) {
	defer pool.Close()
	for entry, want := range map[string]string{"selftest_panic": sandbox.Panic, "selftest_exit": sandbox.Exit, "selftest_alloc": sandbox.Alloc, "selftest_ok": sandbox.Returned} {
		r, err := pool.Run(entry, []byte("x"))
		if err != nil || r.Outcome != want {
			t.Fatalf("ORACLE-SELFCHECK-FAIL sandbox classifies %s as %q (%v), want %q", entry, r.Outcome, err, want)
		}
	}
	fmt.Printf("ORACLE-SELFCHECK-OK sandbox classifies deliberate panic / exit / allocation / value correctly; %d static termination call sites listed as coverage targets\n", len(terminationSites()))
}

// terminationSites lists every log.Fatal*/os.Exit/panic call site in the
// library packages (not cmd/, not tests): a coverage target, not the deciding step.
func terminationSites() []string {
	root := os.Getenv("VERIF_REPO")
	if root == "" {
		root = "/repo"
	}
	var out []string
	fset := token.NewFileSet()
	filepath.Walk(root, func(p string, info os.FileInfo, err error) error {
		if err != nil {
			return nil
		}
		rel, _ := filepath.Rel(root, p)
		if info.IsDir() {
			if rel == "cmd" || rel == "tests" || strings.HasPrefix(info.Name(), ".") {
				return filepath.SkipDir
			}
			return nil
		}
		if !strings.HasSuffix(p, ".go") || strings.HasSuffix(p, "_test.go") {
			return nil
		}
		f, err := parser.ParseFile(fset, p, nil, 0)
		if err != nil {
			return nil
		}
		ast.Inspect(f, func(n ast.Node) bool {
			call, ok := n.(*ast.CallExpr)
			if !ok {
				return true
			}
			name := ""
			switch fn := call.Fun.(type) {
			case *ast.SelectorExpr:
				if x, ok := fn.X.(*ast.Ident); ok {
					name = x.Name + "." + fn.Sel.Name
				}
			case *ast.Ident:
				name = fn.Name
			}
			if name == "panic" || name == "os.Exit" || strings.HasPrefix(name, "log.Fatal") || strings.HasPrefix(name, "log.Panic") {
				out = append(out, fmt.Sprintf("%s:%d %s", rel, fset.Position(call.Pos()).Line, name))
			}
			return true
		})
		return nil
	})
	sort.Strings(out)
	return out
}

func fuzzAll(in []byte) error {
	if len(in) > 1<<16 {
		return nil
	}
	for _, e := range sandbox.EntryNames() {
		if strings.HasPrefix(e, "selftest_") {
			continue
		}
		if err := judge(e, in, sandbox.InProcess(e, in)); err != nil {
			return err
		}
	}
	return nil
}

func FuzzC14(f *testing.F) {
	for _, c := range fixed {
		f.Add([]byte(c.Input))
	}
	for _, p := range []string{"tests/data/signatures/siglist/db.der.esl", "tests/data/signatures/varsign/db.auth", "tests/data/boot/Boot0001-" + global, "tests/data/bootorder/BootOrder-" + global} {
		if b, ok := hx.RepoFile(p); ok {
			f.Add(b)
		}
	}
	for i := 0; i < 600; i++ {
		if c := rapid.Custom(genCase).Example(i); len(c.Input) <= 1<<16 {
			f.Add([]byte(c.Input))
		}
	}
	f.Fuzz(hx.FuzzBody("C14", "FuzzC14", fuzzAll))
}

func TestC14FuzzReplay(t *testing.T) {
	defer pool.Close()
	hx.FuzzReplay(t, "C14", map[string]func([]byte) error{"FuzzC14": func(in []byte) error {
		for _, e := range sandbox.EntryNames() {
			if strings.HasPrefix(e, "selftest_") {
				continue
			}
			r, err := pool.Run(e, in)
			if err != nil {
				return fmt.Errorf("harness: %v", err)
			}
			if err := judge(e, in, r); err != nil {
				return err
			}
		}
		return nil
	}})
}
