// C18 — boot order names resolve to boot entries; load options decode to their fields.
package c18

import (
	"unicode/utf16"
	"bytes"
	"encoding/binary"
	"fmt"
	"regexp"
	"strconv"
	"strings"
	"testing"
	"testing/fstest"

	"github.com/spf13/afero"
	"pgregory.net/rapid"

	"github.com/foxboron/go-uefi/efi"
	"github.com/foxboron/go-uefi/efi/attributes"
	"github.com/foxboron/go-uefi/efi/device"
	efifs "github.com/foxboron/go-uefi/efi/fs"
	"github.com/foxboron/go-uefi/efivarfs/testfs"

	"verifharness/gen"
	"verifharness/hx"
	"verifharness/ref/devpath"
	"verifharness/ref/guid"
)

const globalGUID = "8be4df61-93ca-11d2-aa0d-00e098032b8c"
const dir = "/sys/firmware/efi/efivars/"

type NodeCase struct {
	Kind       string
	A, B       uint32 // pci: function, device; acpi: HID, UID; usb: port, interface
	PartNumber uint32
	Start      uint64
	Size       uint64
	Signature  hx.Hex // 16 bytes
	GPT        bool   // partition format: GPT (2) or MBR (1)
	SigGUID    bool   // signature type: GUID (2) or 32-bit MBR signature (1); usually equal to GPT
	Path       string
	FileName   hx.Hex
}

type Case struct {
	Order       []uint16 // BootOrder contents
	Existing    []bool   // whether the Boot#### variable of Order[i] exists
	Attributes  uint32
	Description string
	Nodes       []NodeCase
	Optional    hx.Hex
	Legacy      bool // also go through the legacy efi package
}

func genNode(t *rapid.T) NodeCase {
	n := NodeCase{Kind: rapid.SampledFrom([]string{"pci", "acpi", "hd", "hd", "file", "file", "fwfile", "usb"}).Draw(t, "nodekind")}
	switch n.Kind {
	case "pci", "usb":
		n.A, n.B = uint32(rapid.Byte().Draw(t, "a")), uint32(rapid.Byte().Draw(t, "b"))
	case "acpi":
		n.A, n.B = rapid.Uint32().Draw(t, "hid"), rapid.Uint32().Draw(t, "uid")
	case "hd":
		n.PartNumber = rapid.Uint32Range(1, 0xffffffff).Draw(t, "part")
		if rapid.Bool().Draw(t, "smallpart") {
			n.PartNumber = rapid.Uint32Range(1, 16).Draw(t, "part2")
		}
		n.Start, n.Size = rapid.Uint64().Draw(t, "start"), rapid.Uint64().Draw(t, "size")
		if rapid.Bool().Draw(t, "smalllba") {
			n.Start, n.Size = n.Start&0xffffff, n.Size&0xffffffff
		}
		n.GPT = rapid.Bool().Draw(t, "gpt")
		n.SigGUID = n.GPT
		if rapid.IntRange(0, 5).Draw(t, "inconsistent") == 0 {
			n.SigGUID = !n.GPT // partition format and signature type disagree
		}
		if n.SigGUID {
			n.Signature = gen.GUID().Draw(t, "partguid").Wire()
		} else {
			s := make([]byte, 16)
			binary.LittleEndian.PutUint32(s, rapid.Uint32().Draw(t, "mbrsig"))
			n.Signature = s
		}
	case "file":
		n.Path = "\\" + strings.Join(rapid.SliceOfN(rapid.StringMatching(`[A-Za-z0-9_\-\.%$ ]{1,12}`), 1, 4).Draw(t, "path"), "\\")
		if rapid.IntRange(0, 5).Draw(t, "unicodepath") == 0 {
			n.Path += "\\" + strings.ReplaceAll(gen.UnicodeString(12).Draw(t, "upath"), "\x00", "")
		}
		if gen.Chance(t, "longpath", 1, 4) {
			// a node whose 16-bit Length needs its second byte (256 and more): names of 125 characters and beyond
			want := rapid.SampledFrom([]int{122, 123, 124, 125, 126, 127, 128, 129, 200, 253, 254, 255, 256, 257, 381, 382, 383, 384, 510, 638, 700, 1021, 1022, 1023}).Draw(t, "pathlen")
			rs := []rune(n.Path + "\\")
			for len(rs) < want {
				rs = append(rs, rs...)
			}
			n.Path = string(rs[:want])
		}
	case "fwfile":
		n.FileName = rapid.SliceOfN(rapid.Byte(), 16, 16).Draw(t, "fwname")
	}
	if rapid.IntRange(0, 5).Draw(t, "structural_bytes_in_the_body") == 0 {
		// field values whose bytes read like the format's own structure: the end-of-path node 7f ff 04 00, the
		// end-of-instance node 7f 01 04 00, a node header. Inside a node body they are data.
		mark := rapid.SampledFrom([]uint32{0x0004ff7f, 0x0004017f, 0x00180404, 0x002a0104}).Draw(t, "marker")
		shift := uint(8 * rapid.IntRange(0, 4).Draw(t, "marker_at"))
		switch n.Kind {
		case "acpi":
			if rapid.Bool().Draw(t, "in_uid") {
				n.B = mark
			} else {
				n.A = mark
			}
		case "hd":
			if rapid.Bool().Draw(t, "in_size") {
				n.Size = uint64(mark) << shift
			} else {
				n.Start = uint64(mark) << shift
			}
		case "fwfile":
			binary.LittleEndian.PutUint32(n.FileName[shift/8*3:], mark)
		case "file":
			n.Path += "\\" + string([]rune{rune(mark & 0xffff), rune(mark >> 16)}) + "x"
		}
	}
	return n
}

func genCase(t *rapid.T) Case {
	var c Case
	n := rapid.IntRange(0, 64).Draw(t, "norder")
	if rapid.Bool().Draw(t, "short") {
		n = rapid.IntRange(0, 5).Draw(t, "norder2")
	}
	// now and then a boot order far longer than any machine has: the variable then spans several pages, I/O buffers ...
	long := gen.Chance(t, "longorder", 1, 25)
	if long {
		n = rapid.SampledFrom([]int{511, 512, 513, 1023, 1024, 2045, 2046, 2047, 2048, 2049, 4095, 4096, 4097, 8200, 32766}).Draw(t, "nlong")
		base := rapid.Uint16().Draw(t, "orderbase")
		step := uint16(2*rapid.IntRange(0, 40).Draw(t, "orderstep") + 1)
		for i := 0; i < n; i++ {
			c.Order = append(c.Order, base+uint16(i)*step)
			// only a handful of the variables exist: around the start, the end, and the 4096-byte marks of the file
			c.Existing = append(c.Existing, i < 2 || i >= n-2 || (i+2)%2048 < 3)
		}
		n = 0
	}
	for i := 0; i < n; i++ {
		var v uint16
		switch rapid.IntRange(0, 3).Draw(t, "numkind") {
		case 0:
			v = uint16(rapid.IntRange(0, 0x30).Draw(t, "small"))
		case 1:
			v = rapid.SampledFrom([]uint16{0x000a, 0x001a, 0x00ff, 0x0a00, 0xabcd, 0xffff, 0xf000, 0x1000, 0xbeef}).Draw(t, "hexletters")
		default:
			v = rapid.Uint16().Draw(t, "any")
		}
		c.Order = append(c.Order, v)
		c.Existing = append(c.Existing, rapid.IntRange(0, 3).Draw(t, "exists") != 0)
	}
	c.Attributes = rapid.Uint32().Draw(t, "attrs")
	c.Description = gen.UnicodeString(40).Draw(t, "desc")
	for i := rapid.IntRange(1, 6).Draw(t, "nnodes"); i > 0; i-- {
		c.Nodes = append(c.Nodes, genNode(t))
	}
	c.Optional = gen.SizedBytes(40, 0).Draw(t, "optional")
	if gen.Chance(t, "bigoption", 1, 25) {
		// a load option larger than a page: long optional data (a kernel command line, an embedded blob) or description
		if rapid.Bool().Draw(t, "bigdesc") {
			rs := []rune(c.Description + "x")
			for len(rs) < 2100 {
				rs = append(rs, rs...)
			}
			c.Description = string(rs[:rapid.IntRange(2030, 2100).Draw(t, "desclen")])
		} else {
			c.Optional = gen.FillBytes(t, rapid.SampledFrom([]int{3900, 4000, 4090, 4096, 4100, 5000, 9000, 20000}).Draw(t, "optlen"))
		}
	}
	c.Legacy = rapid.Bool().Draw(t, "legacy")
	return c
}

func toRef(nc NodeCase) devpath.Node {
	n := devpath.Node{Kind: nc.Kind}
	switch nc.Kind {
	case "pci":
		n.Function, n.Device = byte(nc.A), byte(nc.B)
	case "usb":
		n.Port, n.Iface = byte(nc.A), byte(nc.B)
	case "acpi":
		n.HID, n.UID = nc.A, nc.B
	case "hd":
		n.PartNumber, n.PartStart, n.PartSize = nc.PartNumber, nc.Start, nc.Size
		copy(n.Signature[:], nc.Signature)
		n.MBRType, n.SigType = 1, 1
		if nc.GPT {
			n.MBRType = 2
		}
		if nc.SigGUID {
			n.SigType = 2
		}
	case "file":
		n.Path = nc.Path
	case "fwfile":
		copy(n.FileName[:], nc.FileName)
	}
	return n
}

var hdRe = regexp.MustCompile(`^HD\(([0-9]+),([A-Za-z0-9]+),([^,]+),0[xX]([0-9a-fA-F]+),0[xX]([0-9a-fA-F]+)\)$`)

// checkHDText compares the rendering structurally with the UEFI text form.
func checkHDText(got string, n devpath.Node) error {
	m := hdRe.FindStringSubmatch(got)
	if m == nil {
		return fmt.Errorf("hard drive node renders as %q, the UEFI text form is %q", got, n.HDText())
	}
	part, _ := strconv.ParseUint(m[1], 10, 64)
	start, _ := strconv.ParseUint(m[4], 16, 64)
	size, _ := strconv.ParseUint(m[5], 16, 64)
	// the scheme keyword: MBR/GPT; when partition format and signature type disagree either keyword is accepted
	label := map[byte]string{1: "MBR", 2: "GPT"}
	if uint32(part) != n.PartNumber || start != n.PartStart || size != n.PartSize || !(strings.EqualFold(m[2], label[n.SigType]) || strings.EqualFold(m[2], label[n.MBRType])) {
		return fmt.Errorf("hard drive node renders as %q, the UEFI text form is %q", got, n.HDText())
	}
	// the signature is read according to the signature type field
	if n.SigType == 2 {
		if !strings.EqualFold(m[3], guid.FromWire(n.Signature[:]).Text()) {
			return fmt.Errorf("hard drive node renders the partition GUID as %q, the GUID stored in the node (EFI layout) is %s: full text %q, UEFI text form %q", m[3], guid.FromWire(n.Signature[:]).Text(), got, n.HDText())
		}
	} else {
		sig, err := strconv.ParseUint(strings.TrimPrefix(strings.ToLower(m[3]), "0x"), 16, 64)
		if err != nil || uint32(sig) != binary.LittleEndian.Uint32(n.Signature[:4]) || sig > 0xffffffff {
			return fmt.Errorf("hard drive node renders the MBR signature as %q, the 32-bit signature is 0x%08x: full text %q, UEFI text form %q", m[3], binary.LittleEndian.Uint32(n.Signature[:4]), got, n.HDText())
		}
	}
	return nil
}

func checkOption(opt *device.EFILoadOption, want devpath.Option) error {
	if uint32(opt.Attributes) != want.Attributes {
		return fmt.Errorf("load option attributes %#x, encoded %#x", opt.Attributes, want.Attributes)
	}
	if int(opt.FilePathListLength) != len(want.PathList()) {
		return fmt.Errorf("FilePathListLength %d, encoded %d", opt.FilePathListLength, len(want.PathList()))
	}
	if opt.Description != want.Description {
		return fmt.Errorf("description %q, encoded %q", opt.Description, want.Description)
	}
	if len(opt.FilePath) != len(want.Nodes) {
		return fmt.Errorf("%d device path nodes decoded, %d encoded", len(opt.FilePath), len(want.Nodes))
	}
	for i, n := range want.Nodes {
		got := opt.FilePath[i]
		if got == nil {
			return fmt.Errorf("node %d (%s) decoded as nil", i, n.Kind)
		}
		switch n.Kind {
		case "pci":
			g, ok := got.(device.PCIDevicePath)
			if !ok || g.Function[0] != n.Function || g.Device[0] != n.Device {
				return fmt.Errorf("node %d: PCI node decoded as %#v, encoded function %d device %d", i, got, n.Function, n.Device)
			}
		case "acpi":
			g, ok := got.(device.ACPIDevicePath)
			if !ok || binary.LittleEndian.Uint32(g.HID[:]) != n.HID || binary.LittleEndian.Uint32(g.UID[:]) != n.UID {
				return fmt.Errorf("node %d: ACPI node decoded as %#v, encoded HID %#x UID %#x", i, got, n.HID, n.UID)
			}
		case "usb":
			g, ok := got.(device.USBMessagingDevicePath)
			if !ok || g.USBParentPortNumber != n.Port || g.Interface != n.Iface {
				return fmt.Errorf("node %d: USB node decoded as %#v, encoded port %d interface %d", i, got, n.Port, n.Iface)
			}
		case "fwfile":
			g, ok := got.(device.FirmwareFielMediaDevicePath)
			if !ok || g.FirmwareFileName != n.FileName {
				return fmt.Errorf("node %d: firmware file node decoded as %#v", i, got)
			}
		case "file":
			g, ok := got.(device.FileTypeMediaDevicePath)
			if !ok || g.PathName != n.Path {
				return fmt.Errorf("node %d: file path node decoded as %#v, encoded %q", i, got, n.Path)
			}
			if txt := g.Format(); txt != "File("+n.Path+")" && txt != n.Path {
				return fmt.Errorf("node %d: file path node renders as %q, want File(%s)", i, txt, n.Path)
			}
		case "hd":
			g, ok := got.(device.HardDriveMediaDevicePath)
			if !ok || g.PartitionNumber != n.PartNumber || binary.LittleEndian.Uint64(g.PartitionStart[:]) != n.PartStart || binary.LittleEndian.Uint64(g.PartitionSize[:]) != n.PartSize ||
				g.PartitionSignature != n.Signature || g.PartitionFormat != n.MBRType || g.SignatureType != n.SigType {
				return fmt.Errorf("node %d: hard drive node decoded as %#v, encoded %+v", i, got, n)
			}
			if err := checkHDText(g.Format(), n); err != nil {
				return fmt.Errorf("node %d: %v", i, err)
			}
		}
		if got.Format() == "" {
			return fmt.Errorf("node %d renders as an empty string", i)
		}
	}
	return nil
}

// checkOrder verifies the boot order of one store through both APIs.
func checkOrder(order []uint16, existing []bool, option []byte, want *devpath.Option, legacy bool) error {
	bo := binary.LittleEndian.AppendUint32(nil, 7)
	for _, v := range order {
		bo = binary.LittleEndian.AppendUint16(bo, v)
	}
	files := fstest.MapFS{dir + "BootOrder-" + globalGUID: {Data: bo}}
	for i, v := range order {
		if existing[i] {
			files[dir+devpath.BootName(v)+"-"+globalGUID] = &fstest.MapFile{Data: append(binary.LittleEndian.AppendUint32(nil, 7), option...)}
		}
	}
	e := testfs.NewTestFS().With(files).Open()
	names := e.GetBootOrder()
	if len(names) != len(order) {
		return fmt.Errorf("GetBootOrder returns %d names for %d entries", len(names), len(order))
	}
	for i, v := range order {
		if names[i] != devpath.BootName(v) {
			return fmt.Errorf("BootOrder entry %d is 0x%04x: GetBootOrder names it %q, firmware names the variable %q", i, v, names[i], devpath.BootName(v))
		}
		if existing[i] {
			opt, err := e.GetBootEntry(names[i])
			if err != nil {
				return fmt.Errorf("the name %q returned for boot number 0x%04x does not resolve through GetBootEntry although %s exists: %v", names[i], v, devpath.BootName(v), err)
			}
			if want != nil {
				if err := checkOption(opt, *want); err != nil {
					return fmt.Errorf("GetBootEntry(%s): %v", names[i], err)
				}
			}
		}
	}
	if legacy {
		mem := afero.NewMemMapFs()
		for p, f := range files {
			afero.WriteFile(mem, p, f.Data, 0644)
		}
		saved, savedDir := efifs.Fs, attributes.Efivars
		efifs.SetFS(mem)
		attributes.Efivars = strings.TrimSuffix(dir, "/")
		defer func() { efifs.SetFS(saved); attributes.Efivars = savedDir }()
		lnames := efi.GetBootOrder()
		if len(lnames) != len(order) {
			return fmt.Errorf("legacy efi.GetBootOrder returns %d names for %d entries", len(lnames), len(order))
		}
		for i, v := range order {
			if lnames[i] != devpath.BootName(v) {
				return fmt.Errorf("BootOrder entry %d is 0x%04x: legacy efi.GetBootOrder names it %q, firmware names the variable %q", i, v, lnames[i], devpath.BootName(v))
			}
			if existing[i] {
				opt, err := efi.GetBootEntry(lnames[i])
				if err != nil {
					return fmt.Errorf("legacy efi.GetBootEntry(%q): %v", lnames[i], err)
				}
				if want != nil {
					if err := checkOption(opt, *want); err != nil {
						return fmt.Errorf("legacy efi.GetBootEntry(%s): %v", lnames[i], err)
					}
				}
			}
		}
	}
	return nil
}

func checkCase(c Case) error {
	if len(c.Existing) != len(c.Order) {
		return fmt.Errorf("bad case")
	}
	want := devpath.Option{Attributes: c.Attributes, Description: c.Description, OptionalData: c.Optional}
	for _, nc := range c.Nodes {
		if nc.Kind == "hd" && nc.PartNumber == 0 {
			hx.Excluded("hard_drive_partition_number_0_has_no_defined_short_form")
			continue
		}
		want.Nodes = append(want.Nodes, toRef(nc))
		hx.Class("node/" + nc.Kind)
	}
	letter := false
	for _, v := range c.Order {
		if strings.ContainsAny(fmt.Sprintf("%04x", v), "abcdef") {
			letter = true
		}
	}
	if letter {
		hx.Class("order_with_hex_letter")
	}
	if len(c.Order) == 0 {
		hx.Class("order_empty")
	}
	if letter || len(want.Nodes) >= 3 {
		hx.NonTrivial([]byte(fmt.Sprint(c.Order, c.Existing, c.Attributes, c.Nodes)), []byte(c.Description), c.Optional)
		if hx.WantSample() && len(c.Order) < 8 {
			hx.Sample(c)
		}
	}
	// direct decode
	opt := &device.EFILoadOption{}
	if err := opt.Unmarshal(bytes.NewBuffer(want.Encode())); err != nil {
		return fmt.Errorf("EFILoadOption.Unmarshal rejects a load option built from supported nodes: %v", err)
	}
	if err := checkOption(opt, want); err != nil {
		return fmt.Errorf("EFILoadOption.Unmarshal: %v", err)
	}
	// the two-step route the package exports (header and description, then the path list), the path list read
	// through a reader that offers nothing but Read in small pieces
	enc := want.Encode()
	buf := bytes.NewBuffer(append([]byte{}, enc...))
	o2, err := device.ParseEFILoadOption(buf)
	if err != nil {
		return fmt.Errorf("ParseEFILoadOption rejects a load option built from supported nodes: %v", err)
	}
	o2.FilePath, err = device.ParseDevicePath(&hx.PlainReader{R: bytes.NewReader(buf.Bytes()), Chunk: 3})
	if err != nil {
		return fmt.Errorf("ParseDevicePath (plain reader) rejects the path list of a load option built from supported nodes: %v", err)
	}
	if err := checkOption(o2, want); err != nil {
		return fmt.Errorf("ParseEFILoadOption + ParseDevicePath: %v", err)
	}
	// decoding defines the receiver: a value that held another option before holds exactly the new one afterwards
	other := devpath.Option{Attributes: ^c.Attributes, Description: "previous occupant", Nodes: []devpath.Node{{Kind: "file", Path: "\\old\\path.efi"}, {Kind: "pci", Function: 1, Device: 2}, {Kind: "usb", Port: 3, Iface: 4}, {Kind: "acpi", HID: 5, UID: 6}}, OptionalData: []byte("old optional data")}
	reused := &device.EFILoadOption{}
	if err := reused.Unmarshal(bytes.NewBuffer(other.Encode())); err != nil {
		return fmt.Errorf("EFILoadOption.Unmarshal rejects a fixed load option: %v", err)
	}
	if err := reused.Unmarshal(bytes.NewBuffer(append([]byte{}, enc...))); err != nil {
		return fmt.Errorf("EFILoadOption.Unmarshal into a value that held another option: %v", err)
	}
	if err := checkOption(reused, want); err != nil {
		return fmt.Errorf("EFILoadOption.Unmarshal into a value that held another option: %v", err)
	}
	// results of earlier decodes belong to the caller: the later decodes (of this and, last, of another option) left them alone
	if err := (&device.EFILoadOption{}).Unmarshal(bytes.NewBuffer(other.Encode())); err != nil {
		return fmt.Errorf("EFILoadOption.Unmarshal rejects a fixed load option: %v", err)
	}
	if err := checkOption(opt, want); err != nil {
		return fmt.Errorf("EFILoadOption.Unmarshal: the decoded option changed while other options were decoded: %v", err)
	}
	if err := checkOption(o2, want); err != nil {
		return fmt.Errorf("ParseEFILoadOption + ParseDevicePath: the decoded option changed while other options were decoded: %v", err)
	}
	for _, nc := range c.Nodes {
		if nc.Kind == "file" && 4+2*(len(utf16.Encode([]rune(nc.Path)))+1) >= 256 {
			hx.Class("node/file_length_256_or_more")
			break
		}
	}
	return checkOrder(c.Order, c.Existing, enc, &want, c.Legacy)
}

var checker = hx.Checker[Case]{Property: "C18", Gen: genCase, Check: checkCase, Journal: true}

// TestC18 first enumerates all 65536 boot numbers (exhaustive), then runs the generated search.
func TestC18(t *testing.T) {
	opt := devpath.Option{Attributes: 1, Description: "x", Nodes: []devpath.Node{{Kind: "file", Path: "\\a"}}}.Encode()
	shard, shards := 0, 1
	fmt.Sscan(getenv("VERIF_SHARD", "0"), &shard)
	fmt.Sscan(getenv("VERIF_SHARDS", "1"), &shards)
	for base := 0; base < 65536; base += 64 {
		if (base/64)%shards != shard {
			continue
		}
		var order []uint16
		var ex []bool
		for i := 0; i < 64; i++ {
			order = append(order, uint16(base+i))
			ex = append(ex, true)
		}
		hx.EvalN(64)
		hx.ClassN("exhaustive_boot_numbers", 64)
		if err := hx.Safely(func() error { return checkOrder(order, ex, opt, nil, base%1024 == 0) }); err != nil {
			c := Case{Order: order, Existing: ex, Attributes: 1, Description: "x", Nodes: []NodeCase{{Kind: "file", Path: "\\a"}}, Legacy: base%1024 == 0}
			hx.WriteFailure("C18", c, err.Error())
			hx.Dump()
			t.Fatalf("C18 violated: %v", err)
		}
		for _, v := range order {
			if strings.ContainsAny(fmt.Sprintf("%04x", v), "abcdef") {
				hx.NonTrivial([]byte{byte(v), byte(v >> 8)})
			}
		}
	}
	checker.Rapid(t)
}
func TestC18Replay(t *testing.T) { checker.Replay(t) }

func getenv(k, d string) string {
	if v := strings.TrimSpace(osGetenv(k)); v != "" {
		return v
	}
	return d
}
