package c18

import (
	"bytes"
	"encoding/binary"
	"fmt"
	"os"
	"testing"
	"unicode/utf16"

	"verifharness/hx"
	"verifharness/ref/devpath"
)

func osGetenv(k string) string { return os.Getenv(k) }

// TestC18Pinned validates the reference encoder against load options captured
// from real firmware (tests/data/boot): every hard drive, file path, PCI, ACPI
// and USB node of the fixtures must be reproduced byte for byte by the encoder
// from its field values, and the known text form of Boot0001's partition GUID must match.
func TestC18Pinned(t *testing.T) {
	nodes := 0
	for _, num := range []string{"0000", "0001", "0010", "0017", "001A", "0023"} {
		b, ok := hx.RepoFile("tests/data/boot/Boot" + num + "-8be4df61-93ca-11d2-aa0d-00e098032b8c")
		if !ok || len(b) < 10 {
			continue
		}
		b = b[4:] // attribute prefix of the efivarfs file
		pl := int(binary.LittleEndian.Uint16(b[4:]))
		p := 6
		var desc []uint16
		for ; p+1 < len(b); p += 2 {
			u := binary.LittleEndian.Uint16(b[p:])
			if u == 0 {
				p += 2
				break
			}
			desc = append(desc, u)
		}
		if p+pl > len(b) {
			t.Fatalf("ORACLE-SELFCHECK-FAIL fixture Boot%s: path list outside the variable", num)
		}
		var ref devpath.Option
		ref.Attributes = binary.LittleEndian.Uint32(b)
		ref.Description = string(utf16.Decode(desc))
		list := b[p : p+pl]
		known := true
		for q := 0; q+4 <= len(list); {
			typ, sub, l := list[q], list[q+1], int(binary.LittleEndian.Uint16(list[q+2:]))
			if l < 4 || q+l > len(list) {
				t.Fatalf("ORACLE-SELFCHECK-FAIL fixture Boot%s: bad node length", num)
			}
			body := list[q+4 : q+l]
			var n devpath.Node
			switch {
			case typ == 0x7f:
				q += l
				continue
			case typ == 1 && sub == 1 && len(body) == 2:
				n = devpath.Node{Kind: "pci", Function: body[0], Device: body[1]}
			case typ == 2 && sub == 1 && len(body) == 8:
				n = devpath.Node{Kind: "acpi", HID: binary.LittleEndian.Uint32(body), UID: binary.LittleEndian.Uint32(body[4:])}
			case typ == 3 && sub == 5 && len(body) == 2:
				n = devpath.Node{Kind: "usb", Port: body[0], Iface: body[1]}
			case typ == 4 && sub == 1 && len(body) == 38:
				n = devpath.Node{Kind: "hd", PartNumber: binary.LittleEndian.Uint32(body), PartStart: binary.LittleEndian.Uint64(body[4:]), PartSize: binary.LittleEndian.Uint64(body[12:]), MBRType: body[36], SigType: body[37]}
				copy(n.Signature[:], body[20:36])
			case typ == 4 && sub == 4:
				var u []uint16
				for i := 0; i+1 < len(body)-2; i += 2 {
					u = append(u, binary.LittleEndian.Uint16(body[i:]))
				}
				n = devpath.Node{Kind: "file", Path: string(utf16.Decode(u))}
			case typ == 4 && sub == 6 && len(body) == 16:
				n = devpath.Node{Kind: "fwfile"}
				copy(n.FileName[:], body)
			default:
				known = false
			}
			if n.Kind != "" {
				if !bytes.Equal(n.Encode(), list[q:q+l]) {
					t.Fatalf("ORACLE-SELFCHECK-FAIL reference encoder does not reproduce a %s node of fixture Boot%s", n.Kind, num)
				}
				nodes++
				ref.Nodes = append(ref.Nodes, n)
			}
			q += l
		}
		if known {
			ref.OptionalData = b[p+pl:]
			if !bytes.Equal(ref.Encode(), b) {
				t.Fatalf("ORACLE-SELFCHECK-FAIL reference encoder does not reproduce fixture Boot%s byte for byte", num)
			}
		}
		if num == "0001" {
			for _, n := range ref.Nodes {
				if n.Kind == "hd" && n.HDText() != "HD(1,GPT,d78d8c94-d277-4635-a73c-a68cd6ddb6ab,0x800,0xff801)" {
					t.Fatalf("ORACLE-SELFCHECK-FAIL reference text form of Boot0001's hard drive node is %s", n.HDText())
				}
			}
		}
	}
	if nodes == 0 {
		t.Fatalf("ORACLE-SELFCHECK-FAIL no fixture nodes checked")
	}
	fmt.Printf("ORACLE-SELFCHECK-OK reference load-option encoder reproduces %d device path nodes captured from firmware byte for byte\n", nodes)
}
