// C16 — signatures made by standard third-party tools are parsed and verified.
package c16

import (
	"bytes"
	"crypto/x509"
	"encoding/pem"
	"fmt"
	"testing"
	"time"

	"pgregory.net/rapid"

	"github.com/foxboron/go-uefi/pkcs7"

	"verifharness/gen"
	"verifharness/hx"
	"verifharness/ossl"
	"verifharness/ref/cms"
	"verifharness/ref/der"
	"verifharness/seeds"
)

type Case struct {
	Source   string // corpus:<config> | fresh:<config> | emulated:<shape> | fixture:<name>
	Sig      hx.Hex
	Content  hx.Hex
	Cert     hx.Hex // signer certificate
	Key      int    // pool key of the signer (-1: not available)
	Detached bool
	TZMin    int // process time zone offset from UTC in minutes while the library works (signing times are UTC whatever the zone)
}

func pemKeyCert(id gen.Identity) ([]byte, []byte) {
	kder, _ := x509.MarshalPKCS8PrivateKey(id.Priv())
	return pem.EncodeToMemory(&pem.Block{Type: "PRIVATE KEY", Bytes: kder}), pem.EncodeToMemory(&pem.Block{Type: "CERTIFICATE", Bytes: id.Cert.Raw})
}

func genCase(t *rapid.T) Case {
	kind := rapid.IntRange(0, 9).Draw(t, "source")
	if kind <= 2 && !ossl.Available() {
		kind = 3
	}
	switch {
	case kind <= 2: // fresh signature from the CLI over generated content and certificate
		var id gen.Identity
		if rapid.Bool().Draw(t, "genid") {
			id = gen.Ident(true).Draw(t, "id")
		} else {
			id = rapid.SampledFrom(gen.FixedIdents()).Draw(t, "fid")
		}
		o := ossl.SignOpts{CMS: rapid.Bool().Draw(t, "cms"), NoDetach: rapid.Bool().Draw(t, "nodetach"), NoSMIMECap: rapid.Bool().Draw(t, "nosmimecap"), NoCerts: rapid.IntRange(0, 3).Draw(t, "nocerts") == 0}
		if o.CMS {
			switch rapid.IntRange(0, 3).Draw(t, "extra") {
			case 0:
				o.CAdES = true
			case 1:
				o.Receipt = true
			}
		}
		if rapid.IntRange(0, 11).Draw(t, "noattr") == 0 {
			o.NoAttr, o.CAdES, o.Receipt = true, false, false
		}
		if o.CMS && rapid.IntRange(0, 4).Draw(t, "typed") == 0 {
			o.TypedOID = fmt.Sprintf("1.2.840.113549.1.9.16.1.%d", rapid.IntRange(1, 40).Draw(t, "ctarc"))
		}
		max := 2048
		if rapid.IntRange(0, 9).Draw(t, "big") == 0 {
			max = 65536
		}
		content := gen.SizedBytes(max, 0, 1, 55, 56, 64, 65).Draw(t, "content")
		if rapid.IntRange(0, 4).Draw(t, "dershaped") == 0 {
			content = gen.DERShaped(t) // e.g. a signed .cer file
			if rapid.Bool().Draw(t, "certcontent") {
				content = id.Cert.Raw
			}
		}
		k, c := pemKeyCert(id)
		sig, err := ossl.Sign(k, c, content, o)
		if err != nil {
			t.Fatalf("openssl: %v", err)
		}
		return Case{Source: "fresh:" + o.Name(), Sig: sig, Content: content, Cert: id.Cert.Raw, Key: id.Key, Detached: !o.NoDetach, TZMin: tz(t)}
	case kind <= 4: // committed corpus
		cp := seeds.OpenSSLCorpus()
		if len(cp) > 0 {
			e := cp[rapid.IntRange(0, len(cp)-1).Draw(t, "entry")]
			return Case{Source: "corpus:" + e.Config, Sig: e.Sig, Content: e.Content, Cert: e.Cert, Key: e.Key, Detached: e.Detached, TZMin: tz(t)}
		}
		fallthrough
	case kind <= 7: // harness emulation of the same producers (time and sizes the CLI cannot vary)
		id := rapid.SampledFrom(gen.FixedIdents()).Draw(t, "eid")
		if rapid.IntRange(0, 3).Draw(t, "genid") == 0 {
			id = gen.Ident(true).Draw(t, "gid")
		}
		o := seeds.EmulOpts{CMS: rapid.Bool().Draw(t, "cms"), Attached: rapid.Bool().Draw(t, "attached"), SMIMECaps: rapid.Bool().Draw(t, "caps"),
			NoCerts: rapid.IntRange(0, 3).Draw(t, "nocerts") == 0, ExtraAttr: rapid.SampledFrom([]int{0, 1, 2, 3, 4, 8, 16, 5, 12, 31}).Draw(t, "extra"), Sorted: true, NoTime: rapid.IntRange(0, 5).Draw(t, "no_signing_time") == 0,
			Time: time.Date(rapid.IntRange(1950, 2049).Draw(t, "year"), time.Month(rapid.IntRange(1, 12).Draw(t, "month")), rapid.IntRange(1, 28).Draw(t, "day"),
				rapid.IntRange(0, 23).Draw(t, "h"), rapid.IntRange(0, 59).Draw(t, "m"), rapid.IntRange(0, 59).Draw(t, "s"), 0, time.UTC)}
		typed := ""
		if o.CMS && rapid.IntRange(0, 3).Draw(t, "typed") == 0 {
			// openssl cms -econtent_type: another content type, SignedData version 3
			o.EContentType = []uint64{1, 2, 840, 113549, 1, 9, 16, 1, uint64(rapid.IntRange(1, 40).Draw(t, "ctarc"))}
			typed = ",econtent_type"
		}
		content := gen.SizedBytes(4096, 0, 1, 55, 56, 64, 65).Draw(t, "content")
		if rapid.IntRange(0, 4).Draw(t, "dershaped") == 0 {
			content = gen.DERShaped(t)
		}
		shape := ""
		if o.NoCerts && rapid.Bool().Draw(t, "certfile") {
			// openssl ... -nocerts -certfile ca.pem: certificates are included, the signer's is not among them
			o.OnlyCerts = [][]byte{gen.FixedIdents()[(id.Key+3+10)%10].Cert.Raw}
			shape = ",certfile_only"
		}
		sig, err := seeds.Emulate(id, content, o)
		if err != nil {
			t.Fatalf("emulate: %v", err)
		}
		if rapid.IntRange(0, 5).Draw(t, "twosigners") == 0 {
			// openssl ... -signer a.pem -signer b.pem: two signer infos over the same content; each signer's certificate
			// has to verify, whichever comes first in the SET
			second := gen.FixedIdents()[(id.Key+1+10)%10]
			if second.Cert.Equal(id.Cert) {
				second = gen.FixedIdents()[(id.Key+2+10)%10]
			}
			o2 := o
			o2.OnlyCerts = nil
			sig2, err := seeds.Emulate(second, content, o2)
			if err != nil {
				t.Fatalf("emulate: %v", err)
			}
			merged, err := seeds.AddSigner(sig, sig2)
			if err != nil {
				t.Fatalf("merge: %v", err)
			}
			sig, shape = merged, shape+",two_signers"
			if rapid.Bool().Draw(t, "verify_second") {
				id = second
			}
		}
		typed += shape
		return Case{Source: fmt.Sprintf("emulated:cms=%v,attached=%v,caps=%v,nocerts=%v,extra=%d", o.CMS, o.Attached, o.SMIMECaps, o.NoCerts, o.ExtraAttr) + typed, Sig: sig, Content: content, Cert: id.Cert.Raw, Key: id.Key, Detached: !o.Attached, TZMin: tz(t)}
	default: // sbsign / sbvarsign artefacts
		fx := seeds.Fixtures()
		var with []seeds.Fixture
		for _, f := range fx {
			if f.Cert != nil {
				with = append(with, f)
			}
		}
		if len(with) == 0 {
			t.Fatalf("no fixtures")
		}
		f := with[rapid.IntRange(0, len(with)-1).Draw(t, "fixture")]
		return Case{Source: "fixture:" + f.Name, Sig: f.Blob, Cert: f.Cert.Raw, Key: -1, Detached: true, TZMin: tz(t)}
	}
}

// tz draws the process time zone: UTC one time in three, else any quarter-hour offset in use on the planet.
func tz(t *rapid.T) int {
	if rapid.IntRange(0, 2).Draw(t, "utc") == 0 {
		return 0
	}
	return 15 * rapid.IntRange(-48, 56).Draw(t, "tzquarters")
}

func checkCase(c Case) error {
	cert, err := x509.ParseCertificate(c.Cert)
	if err != nil {
		return fmt.Errorf("bad case: %v", err)
	}
	if c.TZMin != 0 {
		saved := time.Local
		time.Local = time.FixedZone("verif", c.TZMin*60)
		defer func() { time.Local = saved }()
		hx.Class("process_time_zone_not_utc")
	}
	// what the reference sees
	sd, err := cms.Parse(c.Sig)
	if err != nil {
		return fmt.Errorf("bad case: reference cannot parse the third-party signature: %v", err)
	}
	if len(sd.Signers) == 0 {
		return fmt.Errorf("bad case: no signer")
	}
	s0 := sd.Signers[0]
	hasAttrs := s0.Attrs != nil
	nAttrs := 0
	if hasAttrs {
		nAttrs = len(s0.Attrs.Children)
	}
	_, attached := sd.EContentOctets()
	hx.Class("source/" + sourceKind(c.Source))
	if !hasAttrs {
		hx.Class("no_signed_attributes")
	}
	if attached {
		hx.Class("attached_content")
		if len(c.Content) >= 2 && int(c.Content[1]) == len(c.Content)-2 {
			hx.Class("attached_content_is_itself_one_der_element")
		}
	}
	if sd.Certs == nil {
		hx.Class("no_embedded_certificates")
	}
	if nAttrs >= 4 || attached || sd.Certs == nil {
		hx.NonTrivial(c.Sig)
		if hx.WantSample() && len(c.Sig) < 2500 {
			hx.Sample(map[string]any{"source": c.Source, "signed_attributes": nAttrs, "attached": attached, "sig_hex": c.Sig})
		}
	}

	origSig := append([]byte{}, c.Sig...)
	defer func() {
		if !bytes.Equal(origSig, c.Sig) {
			panic("verification modified the caller's signature bytes (C16)")
		}
	}()
	if attached && len(c.Sig)%2 == 0 {
		// a tampered copy (one content byte changed) is verified first and must be refused; the genuine signature afterwards must still verify
		if root, err := der.ParseOne(c.Sig, der.Options{}); err == nil {
			clone := root.Clone()
			if sd2, err := cms.Locate(clone); err == nil && sd2.EContent0 != nil && len(sd2.EContent0.Children) > 0 && len(sd2.EContent0.Children[0].Content) > 0 {
				cn := sd2.EContent0.Children[0]
				cn.Content[len(cn.Content)/2] ^= 0x01
				if bp, err := pkcs7.ParsePKCS7(clone.Encode()); err == nil {
					if ok, err := bp.Verify(cert); ok && err == nil {
						return fmt.Errorf("Verify accepts a third-party signature whose attached content was changed (%s)", c.Source)
					}
					hx.Class("tampered_copy_verified_first")
				}
			}
		}
	}
	p, err := pkcs7.ParsePKCS7(c.Sig)
	if err != nil {
		return fmt.Errorf("ParsePKCS7 rejects a third-party signature (%s, %d bytes, %d signed attributes): %v", c.Source, len(c.Sig), nAttrs, err)
	}
	if !hasAttrs {
		// must parse; verification must end in a negative result or an error, never a crash
		ok, _ := p.Verify(cert)
		if ok {
			return fmt.Errorf("Verify reports success for a signature without signed attributes (%s)", c.Source)
		}
		return nil
	}
	refV := sd.Accepts(cert)
	if !refV.OK {
		return fmt.Errorf("bad case: the reference verifier rejects the third-party signature for its signer: %s", refV.Reason)
	}
	ok, verr := p.Verify(cert)
	if !ok || verr != nil {
		return fmt.Errorf("Verify against the signer's certificate fails for a third-party signature (%s, %d signed attributes, attached=%v): %v, %v", c.Source, nAttrs, attached, ok, verr)
	}
	// any other certificate must fail
	others := map[string]*x509.Certificate{}
	for _, cand := range []int{5, 3, 7, 9, 1} {
		// an unrelated certificate: one that no signer info of this signature names (a second signer's is not "another")
		uc := gen.FixedIdents()[cand].Cert
		named := uc.Equal(cert)
		for _, si := range sd.Signers {
			if si.Names(uc) {
				named = true
			}
		}
		if !named {
			others["unrelated"] = uc
			break
		}
	}
	signer := gen.Identity{Key: c.Key, Cert: cert}
	if tw, err := gen.Twin(signer, (c.Key+2)%8); err == nil {
		others["same issuer and serial, other key"] = tw.Cert
	}
	if at, err := gen.AlienTwin(signer, len(c.Sig)); err == nil {
		others["same issuer and serial, a key that is not an RSA key"] = at
	}
	if c.Key >= 0 {
		if sb, err := gen.Sibling(signer); err == nil {
			others["same key and issuer, other serial"] = sb.Cert
		}
	}
	for name, oc := range others {
		if ok, err := p.Verify(oc); ok && err == nil {
			return fmt.Errorf("Verify succeeds against another certificate (%s) for %s", name, c.Source)
		}
	}
	// the parsed object still verifies against its signer after it has been asked about other certificates
	if ok, err := p.Verify(cert); !ok || err != nil {
		return fmt.Errorf("Verify against the signer's certificate fails when the same parsed object is asked again (%s, attached=%v): %v, %v", c.Source, attached, ok, err)
	}
	// the caller's bytes are still the same signature: parse and verify them once more
	if p2, err := pkcs7.ParsePKCS7(c.Sig); err != nil {
		return fmt.Errorf("the signature bytes no longer parse after they have been verified once (%s): %v", c.Source, err)
	} else if ok, err := p2.Verify(cert); !ok || err != nil {
		return fmt.Errorf("the signature no longer verifies when parsed a second time (%s): %v %v", c.Source, ok, err)
	}
	// reconstructing the signed-attribute encoding from the parsed values reproduces the signed bytes
	if len(p.SignerInfo) == 0 || p.SignerInfo[0].AuthenticatedAttributes == nil {
		return fmt.Errorf("parsed signature exposes no attributes")
	}
	var re []byte
	if err := hx.Safely(func() error { re = p.SignerInfo[0].AuthenticatedAttributes.Marshal(); return nil }); err != nil {
		return fmt.Errorf("Attributes.Marshal of the parsed attributes (%s): %v", c.Source, err)
	}
	if want := s0.SignedAttrBytes(); !bytes.Equal(re, want) {
		return fmt.Errorf("Attributes.Marshal of the parsed attributes does not reproduce the signed bytes (%s): %d vs %d bytes, first difference at %d", c.Source, len(re), len(want), firstDiff(re, want))
	}
	return nil
}

func firstDiff(a, b []byte) int {
	i := 0
	for i < len(a) && i < len(b) && a[i] == b[i] {
		i++
	}
	return i
}

func sourceKind(s string) string {
	for i := 0; i < len(s); i++ {
		if s[i] == ':' {
			return s[:i]
		}
	}
	return s
}

var checker = hx.Checker[Case]{Property: "C16", Gen: genCase, Check: checkCase}

func TestC16(t *testing.T) {
	defer ossl.Cleanup()
	hx.SetExtra("openssl_available", ossl.Available())
	hx.SetExtra("committed_openssl_corpus_entries", len(seeds.OpenSSLCorpus()))
	// the whole committed corpus and every fixture, deterministically, before the generated search
	for i, e := range seeds.OpenSSLCorpus() {
		c := Case{Source: "corpus:" + e.Config, Sig: e.Sig, Content: e.Content, Cert: e.Cert, Key: e.Key, Detached: e.Detached}
		hx.Eval()
		if err := hx.Safely(func() error { return checkCase(c) }); err != nil {
			hx.WriteFailure("C16", c, fmt.Sprintf("corpus entry %d: %v", i, err))
			hx.Dump()
			t.Fatalf("C16 violated by corpus entry %d (%s): %v", i, e.Config, err)
		}
	}
	checker.Rapid(t)
}
func TestC16Replay(t *testing.T) { defer ossl.Cleanup(); checker.Replay(t) }

// TestC16Pinned: the harness emulation of the producers is cross-checked
// against the real binary's output: same attribute kinds in the same (DER) order.
func TestC16Pinned(t *testing.T) {
	defer ossl.Cleanup()
	n := 0
	for _, e := range seeds.OpenSSLCorpus() {
		sd, err := cms.Parse(e.Sig)
		if err != nil {
			t.Fatalf("ORACLE-SELFCHECK-FAIL reference cannot parse corpus entry %s: %v", e.Config, err)
		}
		cert, err := x509.ParseCertificate(e.Cert)
		if err != nil {
			t.Fatalf("ORACLE-SELFCHECK-FAIL corpus certificate: %v", err)
		}
		if e.NoAttr {
			continue
		}
		if v := sd.Accepts(cert); !v.OK {
			t.Fatalf("ORACLE-SELFCHECK-FAIL reference rejects OpenSSL-made %s: %s", e.Config, v.Reason)
		}
		// OpenSSL emits the attributes in DER SET OF order: the emulation's sorter must agree
		at := sd.Signers[0].Attrs.Children
		sorted := cms.SortSetOf(at)
		for i := range at {
			if !bytes.Equal(at[i].RawBytes(), sorted[i].RawBytes()) {
				t.Fatalf("ORACLE-SELFCHECK-FAIL OpenSSL attribute order differs from the emulation's DER sort in %s", e.Config)
			}
		}
		n++
	}
	fmt.Printf("ORACLE-SELFCHECK-OK reference verifier accepts %d OpenSSL-made corpus signatures; emulation's attribute order equals OpenSSL's\n", n)
}
