// C02 — image verification succeeds only for a signature by that key over these bytes.
package c02

import (
	"bytes"
	"crypto"
	"errors"
	"crypto/sha256"
	"crypto/x509"
	"encoding/binary"
	"fmt"
	"io"
	"strings"
	"testing"

	"pgregory.net/rapid"

	"github.com/foxboron/go-uefi/authenticode"

	"verifharness/gen"
	"verifharness/hx"
	"verifharness/ref/acode"
	"verifharness/ref/cms"
	"verifharness/ref/der"
	"verifharness/ref/pehash"
	"verifharness/seeds"
)

type Case struct {
	Img   hx.Hex // the (possibly tampered) signed image that is verified
	Cert  hx.Hex // verifying certificate
	Base  string // where the valid signed image came from
	Class string // derivation
	Role  string // signer | other | twin | twin_of_forger
	Note  string // what was changed (for readers of a replay file)
	Orig  hx.Hex // the valid signed image the case was derived from (parsed between Parse and Verify of the derived one)
	Sign  hx.Hex // the genuine signer's certificate (used to verify the same parsed signature object first)
}

// signedBase returns a validly signed image and its signer.
func signedBase(t *rapid.T) ([]byte, gen.Identity, string) {
	if rapid.IntRange(0, 5).Draw(t, "fixture") == 0 {
		var cands []string
		for _, f := range []string{"authenticode/testdata/test.pecoff.signed", "tests/data/binary/HelloWorld.efi.signed"} {
			if _, ok := hx.RepoFile(f); ok {
				cands = append(cands, f)
			}
		}
		if len(cands) > 0 {
			f := rapid.SampledFrom(cands).Draw(t, "which")
			b, _ := hx.RepoFile(f)
			for _, fx := range seeds.Fixtures() {
				if fx.Cert == nil {
					continue
				}
				if ok, _ := acode.VerifyImage(b, fx.Cert); ok {
					return b, gen.Identity{Key: -1, Cert: fx.Cert}, "fixture:" + f
				}
			}
		}
	}
	o := gen.SmallPE
	if rapid.IntRange(0, 3).Draw(t, "bigger") == 0 {
		o = gen.DefaultPE
	}
	o.Table = false
	img := gen.PEImage(o).Draw(t, "img")
	id := rapid.SampledFrom(gen.FixedIdents()[:4]).Draw(t, "signer")
	two := rapid.IntRange(0, 3).Draw(t, "twosigs") == 0
	first := gen.FixedIdents()[(id.Key+1)%4]
	// a third of the bases come from a producer that shares nothing with the library
	if rapid.IntRange(0, 2).Draw(t, "producer") == 0 {
		return referenceSigned(t, img, id, first, two, "reference-signed generated image")
	}
	// A library that cannot parse or sign a well-formed image is the business of C01/C03;
	// here the base then comes from the reference producer, so that verification stays under test.
	bin, err := authenticode.Parse(bytes.NewReader(img))
	if err != nil {
		return referenceSigned(t, img, id, first, two, "reference-signed generated image (library Parse refused it)")
	}
	var sigs [][]byte
	if two {
		sig, err := bin.Sign(first.Priv(), first.Cert)
		if err != nil {
			return referenceSigned(t, img, id, first, two, "reference-signed generated image (library Sign refused it)")
		}
		sigs = append(sigs, sig)
	}
	sig, err := bin.Sign(id.Priv(), id.Cert)
	if err != nil {
		return referenceSigned(t, img, id, first, two, "reference-signed generated image (library Sign refused it)")
	}
	sigs = append(sigs, sig)
	if rapid.IntRange(0, 3).Draw(t, "serialiser") == 0 {
		return bin.Bytes(), id, "library-signed generated image"
	}
	// the blobs the library returned, attached by the reference (what a tool does that stores detached signatures)
	out, err := acode.WithTable(img, acode.BuildTable(sigs))
	if err != nil {
		t.Fatalf("reference WithTable: %v", err)
	}
	return out, id, "library-signed generated image, table attached by the reference"
}

func referenceSigned(t *rapid.T, img []byte, id, first gen.Identity, two bool, base string) ([]byte, gen.Identity, string) {
	opts := func(label string) acode.SignOpts {
		o := acode.SignOpts{NoCerts: rapid.IntRange(0, 3).Draw(t, label+"nocerts") == 0, ObsoleteBMP: rapid.Bool().Draw(t, label+"bmp")}
		if rapid.Bool().Draw(t, label+"time") {
			o.SigningTime = []byte("240102030405Z")
		}
		return o
	}
	var err error
	if two {
		if img, err = acode.Sign(img, first.Priv(), first.Cert, opts("first")); err != nil {
			t.Fatalf("reference signer: %v", err)
		}
	}
	if img, err = acode.Sign(img, id.Priv(), id.Cert, opts("")); err != nil {
		t.Fatalf("reference signer: %v", err)
	}
	return img, id, base
}

// coveredPositions returns the offsets of the signed image that the hash covers.
func coveredPositions(img []byte) []int {
	l, err := pehash.Parse(img)
	if err != nil {
		return nil
	}
	r, err := l.Hash(img)
	if err != nil {
		return nil
	}
	var out []int
	for p, c := range r.Covered {
		if c > 0 {
			out = append(out, p)
		}
	}
	return out
}

// editBlob applies f to a clone of the parsed blob number idx of the image's table and rebuilds the image.
func editBlob(img []byte, idx int, f func(sd *cms.SD) error) ([]byte, error) {
	es, _, err := acode.Table(img)
	if err != nil || len(es) == 0 {
		return nil, fmt.Errorf("no table")
	}
	idx %= len(es)
	parsed, err := der.ParseOne(es[idx].Blob, der.Options{})
	if err != nil {
		return nil, err
	}
	root := parsed.Clone()
	sd, err := cms.Locate(root)
	if err != nil {
		return nil, err
	}
	if err := f(sd); err != nil {
		return nil, err
	}
	var blobs [][]byte
	for i, e := range es {
		if i == idx {
			blobs = append(blobs, root.Encode())
		} else {
			blobs = append(blobs, e.Blob)
		}
	}
	return acode.WithTable(img, acode.BuildTable(blobs))
}

// rewriteDigest makes every blob commit to the digest of the image as it is now; md also fixes the messageDigest attribute.
func rewriteDigest(img []byte, md bool) ([]byte, error) { return rewriteDigestHow(img, md, false) }

// rewriteDigestHow with unsignedMD leaves the signed attributes (and the signature over them) as they are and states the
// digest of the rewritten content in unauthenticated attributes instead: nothing a verifier may take into account.
func rewriteDigestHow(img []byte, md, unsignedMD bool) ([]byte, error) {
	h, err := pehash.Hash(img)
	if err != nil {
		return nil, err
	}
	es, _, err := acode.Table(img)
	if err != nil {
		return nil, err
	}
	out := img
	for i := range es {
		out, err = editBlob(out, i, func(sd *cms.SD) error {
			n, err := acode.SpcDigestNode(sd)
			if err != nil {
				return err
			}
			n.Content = append([]byte{}, h.Digest...)
			if unsignedMD {
				cands, ok := sd.EContentOctets()
				if !ok {
					return fmt.Errorf("no content")
				}
				d := sha256.Sum256(cands[0])
				for _, s := range sd.Signers {
					un := []*der.Node{cms.Attr(cms.OIDMessageDigest, der.Octets(d[:]))}
					if sd.EType != nil {
						un = append(un, cms.Attr(cms.OIDContentType, sd.EType.Clone()))
					}
					if s.UnAttrs != nil {
						s.UnAttrs.Children = append(s.UnAttrs.Children, un...)
						s.UnAttrs.Opaque, s.UnAttrs.Content = false, nil
					} else {
						s.Node.Children = append(s.Node.Children, &der.Node{Class: der.ClassContext, Constructed: true, Tag: 1, Children: un})
					}
				}
			}
			if md {
				cands, ok := sd.EContentOctets()
				if !ok {
					return fmt.Errorf("no content")
				}
				d := sha256.Sum256(cands[0])
				for _, s := range sd.Signers {
					for _, v := range s.AttrValues(cms.OIDMessageDigest) {
						v.Content = d[:]
					}
				}
			}
			return nil
		})
		if err != nil {
			return nil, err
		}
	}
	return out, nil
}

var classes = []string{"none", "flip_covered", "flip_covered", "flip_any", "transplant", "flip+digest_rewrite", "flip+digest_rewrite", "flip+digest_rewrite+md", "flip+digest_rewrite+unsigned_md",
	"transplant+digest_rewrite", "append_behind_table", "table_grown_over_junk+tail_rewritten", "blob_mutation", "blob_mutation", "forged_resign", "foreign_signer_splice", "valid_foreign_entry_then_transplant", "data_signature_grafted"}

func genCase(t *rapid.T) Case {
	img, signer, base := signedBase(t)
	c := Case{Base: base, Class: rapid.SampledFrom(classes).Draw(t, "class")}
	other := gen.FixedIdents()[5]
	alt := 1
	if signer.Key == 1 {
		alt = 2
	}
	flip := func(b []byte, covered bool) []byte {
		out := append([]byte{}, b...)
		p := rapid.IntRange(0, len(out)-1).Draw(t, "pos")
		if covered {
			if cp := coveredPositions(b); len(cp) > 0 {
				l, _ := pehash.Parse(b)
				in := []int{}
				for _, q := range []int{0, 2, l.Lfanew + 6, l.OptOff + 2, l.CksumOff - 1, l.CksumOff + 4, l.DD4Off - 1, l.DD4Off + 8, l.SecTableOff, int(l.SizeOfHeaders) - 1, int(l.SizeOfHeaders), int(l.CertVA) - 1, int(l.CertVA) - 9} {
					if q >= 0 && q < len(b) {
						in = append(in, q)
					}
				}
				where := rapid.IntRange(0, 3).Draw(t, "where")
				ddOff := l.DD4Off - 32
				if where <= 1 && len(in) > 0 {
					p = rapid.SampledFrom(in).Draw(t, "bpos")
				} else if q := ddOff + rapid.IntRange(-64, 8*int(l.NumDirs)+7).Draw(t, "ddpos"); where == 2 && q >= 0 && q < len(b) && (q < l.DD4Off || q >= l.DD4Off+8) {
					// somewhere in or just around the data-directory array, outside the certificate-table entry
					p = q
				} else {
					p = cp[rapid.IntRange(0, len(cp)-1).Draw(t, "cpos")]
				}
			}
		}
		out[p] ^= byte(1 << uint(rapid.IntRange(0, 7).Draw(t, "bit")))
		if l, err := pehash.Parse(b); err == nil {
			c.Note += fmt.Sprintf("byte %d (%s) changed; ", p, l.Region(b, p))
		}
		return out
	}
	var err error
	out := img
	switch c.Class {
	case "none":
	case "flip_covered":
		out = flip(img, true)
	case "flip_any":
		out = flip(img, false)
	case "transplant", "transplant+digest_rewrite":
		o := gen.SmallPE
		o.Table = false
		victim := gen.PEImage(o).Draw(t, "victim")
		es, _, terr := acode.Table(img)
		if terr != nil || len(es) == 0 {
			err = fmt.Errorf("base without a readable table: %v", terr)
			break
		}
		var blobs [][]byte
		for _, e := range es {
			blobs = append(blobs, e.Blob)
		}
		out, err = acode.WithTable(victim, acode.BuildTable(blobs))
		if err == nil && c.Class == "transplant+digest_rewrite" {
			out, err = rewriteDigest(out, rapid.Bool().Draw(t, "md"))
		}
	case "append_behind_table":
		// bytes added to the file behind the certificate table (a payload smuggled into a signed file): the table no
		// longer ends the file, so what the specification hashes is no longer what was signed
		k := rapid.SampledFrom([]int{1, 7, 8, 16, 24, 64, 512, 4096}).Draw(t, "appended")
		tail := gen.FillBytes(t, k)
		if rapid.Bool().Draw(t, "zeros") {
			tail = make([]byte, k)
		}
		out = append(append([]byte{}, img...), tail...)
		c.Note += fmt.Sprintf("%d bytes appended behind the certificate table; ", k)
	case "table_grown_over_junk+tail_rewritten":
		// the directory entry (which no digest covers) is made to span a few more bytes that are added behind the table,
		// and one of the last covered bytes in front of the table is changed: sizes stay consistent, the content does not
		l, perr := pehash.Parse(img)
		if perr != nil || l.CertVA == 0 || int(l.CertVA)+int(l.CertSize) != len(img) || int(l.CertVA) < int(l.SizeOfHeaders)+8 {
			err = fmt.Errorf("base without a table that ends the file")
			break
		}
		j := rapid.IntRange(1, 8).Draw(t, "junk")
		out = append(append([]byte{}, img...), gen.FillBytes(t, j)...)
		binary.LittleEndian.PutUint32(out[l.DD4Off+4:], l.CertSize+uint32(j))
		p := int(l.CertVA) - 1 - rapid.IntRange(0, 7).Draw(t, "back")
		out[p] ^= byte(1 << uint(rapid.IntRange(0, 7).Draw(t, "bit")))
		c.Note += fmt.Sprintf("%d bytes added behind the table and taken into the directory entry, byte %d (%d in front of the table) changed; ", j, p, int(l.CertVA)-p)
	case "flip+digest_rewrite":
		out, err = rewriteDigest(flip(img, true), false)
	case "flip+digest_rewrite+md":
		out, err = rewriteDigest(flip(img, true), true)
	case "flip+digest_rewrite+unsigned_md":
		out, err = rewriteDigestHow(flip(img, true), false, true)
	case "blob_mutation":
		es, _, terr := acode.Table(img)
		if terr != nil || len(es) == 0 {
			err = fmt.Errorf("base without a readable table: %v", terr)
			break
		}
		idx := rapid.IntRange(0, len(es)-1).Draw(t, "entry")
		env := gen.MutEnv{OtherCert: other.Cert.Raw, OtherIssuer: other.Cert.RawIssuer, AltKey: gen.Keys()[alt], NewContent: gen.SizedBytes(40, 0, 32).Draw(t, "nc")}
		if signer.Key >= 0 && idx == len(es)-1 {
			env.SignerKey = signer.Priv() // (the last entry is the signer's; an earlier one may be somebody else's)
		}
		m, class := gen.MutateCMS(t, es[idx].Blob, env)
		if class == "" {
			m, class = es[idx].Blob, "noop"
		}
		c.Class = "blob_mutation:" + class
		var blobs [][]byte
		for i, e := range es {
			if i == idx {
				blobs = append(blobs, m)
			} else {
				blobs = append(blobs, e.Blob)
			}
		}
		out, err = acode.WithTable(img, acode.BuildTable(blobs))
	case "foreign_signer_splice":
		// the attacker changes the image, signs the result properly with an own key, and adds the victim's
		// genuine SignerInfo (taken from the original signature) beside the own one
		bare, cerr := acode.StripTable(flip(img, true))
		victimEntries, _, terr := acode.Table(img)
		if cerr != nil || terr != nil || len(victimEntries) == 0 {
			err = fmt.Errorf("no table")
			break
		}
		abin, perr := authenticode.Parse(bytes.NewReader(bare))
		if perr != nil {
			err = perr
			break
		}
		attacker := gen.FixedIdents()[5]
		if _, serr := abin.Sign(attacker.Priv(), attacker.Cert); serr != nil {
			err = serr
			break
		}
		out = abin.Bytes()
		vsd, perr := cms.Parse(victimEntries[len(victimEntries)-1].Blob)
		if perr != nil || len(vsd.Signers) == 0 {
			err = fmt.Errorf("victim blob")
			break
		}
		victimSigner := vsd.Signers[0].Node.Clone()
		first := rapid.Bool().Draw(t, "victimfirst")
		out, err = editBlob(out, 0, func(sd *cms.SD) error {
			if first {
				sd.SignerSet.Children = append([]*der.Node{victimSigner}, sd.SignerSet.Children...)
			} else {
				sd.SignerSet.Children = append(sd.SignerSet.Children, victimSigner)
			}
			return nil
		})
	case "valid_foreign_entry_then_transplant":
		// another image, properly signed by somebody else (first entry, correct digest), followed by the victim's
		// signature entry taken from the victim's image (or the other way round)
		o := gen.SmallPE
		o.Table = false
		otherImg := gen.PEImage(o).Draw(t, "otherimage")
		abin, perr := authenticode.Parse(bytes.NewReader(otherImg))
		if perr != nil {
			err = perr
			break
		}
		attacker := gen.FixedIdents()[5]
		if _, serr := abin.Sign(attacker.Priv(), attacker.Cert); serr != nil {
			err = serr
			break
		}
		signedOther := abin.Bytes()
		oes, _, e1 := acode.Table(signedOther)
		ves, _, e2 := acode.Table(img)
		if e1 != nil || e2 != nil || len(oes) == 0 || len(ves) == 0 {
			err = fmt.Errorf("tables")
			break
		}
		blobs := [][]byte{oes[0].Blob, ves[len(ves)-1].Blob}
		if rapid.Bool().Draw(t, "victimfirst") {
			blobs[0], blobs[1] = blobs[1], blobs[0]
		}
		out, err = acode.WithTable(signedOther, acode.BuildTable(blobs))
	case "data_signature_grafted":
		// cross-protocol: the victim's key once signed some *data* (a variable update, a mail: content type id-data).
		// That genuine SignerInfo is kept; the unsigned content slot gets an SpcIndirectDataContent with the digest of
		// this image. The signed attributes say "data" and carry the digest of the data, not of the new content.
		if signer.Key < 0 {
			err = fmt.Errorf("no private key for the fixture signer")
			break
		}
		bare, serr := acode.StripTable(img)
		if serr != nil {
			err = serr
			break
		}
		data := gen.SizedBytes(64, 1, 32).Draw(t, "signeddata")
		attrs := cms.SortSetOf([]*der.Node{cms.Attr(cms.OIDContentType, der.OID(cms.OIDData...)), cms.Attr(cms.OIDMessageDigest, der.Octets(cms.Digest(data)))})
		opts := cms.BuildOpts{ContentType: cms.OIDData, Attrs: attrs, Certs: [][]byte{signer.Cert.Raw}, Outer: true, SDVersion: 1, SIVersion: 1, DigestNull: true, SigAlgNull: true}
		if rapid.Bool().Draw(t, "attached") {
			opts.EContent = der.Octets(data)
		}
		dataSig, berr := cms.Build(signer.Priv(), signer.Cert, opts)
		if berr != nil {
			err = berr
			break
		}
		// a genuine Authenticode blob for this image (made with a key of the attacker's) donates its content element
		attacker := gen.FixedIdents()[5]
		donorImg, derr := acode.Sign(bare, attacker.Priv(), attacker.Cert, acode.SignOpts{})
		if derr != nil {
			err = derr
			break
		}
		des, _, terr := acode.Table(donorImg)
		if terr != nil || len(des) == 0 {
			err = fmt.Errorf("donor table")
			break
		}
		donor, perr := cms.Parse(des[len(des)-1].Blob)
		parsedSig, perr2 := der.ParseOne(dataSig, der.Options{})
		if perr != nil || perr2 != nil {
			err = fmt.Errorf("parse: %v %v", perr, perr2)
			break
		}
		root := parsedSig.Clone()
		sd, lerr := cms.Locate(root)
		if lerr != nil || sd.EncapCI == nil || donor.EncapCI == nil {
			err = fmt.Errorf("locate: %v", lerr)
			break
		}
		sd.EncapCI.Children = donor.EncapCI.Clone().Children
		sd.EncapCI.Opaque, sd.EncapCI.Content = false, nil
		out, err = acode.WithTable(bare, acode.BuildTable([][]byte{root.Encode()}))
	case "forged_resign":
		// tamper, make the blob consistent again (digest + messageDigest) and re-sign the attributes with another key,
		// keeping the victim's issuer and serial
		out, err = rewriteDigest(flip(img, true), true)
		if err == nil {
			es, _, _ := acode.Table(out)
			for i := range es {
				out, err = editBlob(out, i, func(sd *cms.SD) error {
					for _, s := range sd.Signers {
						if s.Attrs == nil || s.Sig == nil {
							continue
						}
						sig, serr := cms.SignAttrs(gen.Keys()[alt], s)
						if serr != nil {
							return serr
						}
						s.Sig.Content = sig
					}
					return nil
				})
				if err != nil {
					break
				}
			}
		}
	}
	if err != nil {
		// derivation not applicable to this base (e.g. fixture layout): fall back to the plain flip (counted, so that a derivation that never works is visible)
		hx.Class("derivation_not_applicable/" + c.Class)
		c.Class = "flip_covered"
		out = flip(img, true)
	}
	c.Img = out
	if rapid.Bool().Draw(t, "withorig") {
		c.Orig = img
	}
	c.Sign = signer.Cert.Raw
	switch rapid.IntRange(0, 5).Draw(t, "role") {
	case 0:
		c.Role, c.Cert = "other", other.Cert.Raw
	case 1:
		tw, terr := gen.Twin(signer, 3)
		if terr != nil {
			t.Fatalf("twin: %v", terr)
		}
		c.Role, c.Cert = "twin", tw.Cert.Raw
	case 2:
		at, terr := gen.AlienTwin(signer, rapid.IntRange(0, 2).Draw(t, "alien"))
		if terr != nil {
			t.Fatalf("alien twin: %v", terr)
		}
		c.Role, c.Cert = "twin_without_rsa_key", at.Raw
	default:
		c.Role, c.Cert = "signer", signer.Cert.Raw
	}
	if c.Class == "forged_resign" && rapid.Bool().Draw(t, "forgerview") {
		if tw, terr := gen.Twin(signer, alt); terr == nil {
			c.Role, c.Cert = "twin_of_forger", tw.Cert.Raw
		}
	}
	return c
}

// hashedStream returns the byte stream the specification hashes for the image (reference), as a reader.
func hashedStream(img []byte) *bytes.Reader {
	l, err := pehash.Parse(img)
	if err != nil {
		return bytes.NewReader(nil)
	}
	var sink streamSink
	if _, err := l.HashWith(img, &sink); err != nil {
		return bytes.NewReader(nil)
	}
	return bytes.NewReader(sink.b)
}

// streamSink is a hash.Hash that just records what is written to it.
type streamSink struct{ b []byte }

func (s *streamSink) Write(p []byte) (int, error) { s.b = append(s.b, p...); return len(p), nil }
func (s *streamSink) Sum(b []byte) []byte         { return b }
func (s *streamSink) Reset()                      { s.b = nil }
func (s *streamSink) Size() int                   { return 0 }
func (s *streamSink) BlockSize() int              { return 64 }

func checkCase(c Case) error {
	cert, err := x509.ParseCertificate(c.Cert)
	if err != nil {
		return fmt.Errorf("bad case: %v", err)
	}
	img := []byte(c.Img)
	short := c.Class
	if len(short) > 14 && short[:14] == "blob_mutation:" {
		short = "blob_mutation"
	}
	hx.Class("class/" + short)
	hx.Class("role/" + c.Role)
	switch {
	case strings.HasPrefix(c.Base, "fixture:"):
		hx.Class("base/sbsign fixture")
	case strings.Contains(c.Base, "refused"):
		hx.Class("base/reference-signed because the library refused to sign")
	case strings.HasPrefix(c.Base, "reference-signed"):
		hx.Class("base/reference-signed")
	default:
		hx.Class("base/library-signed")
	}
	refOK, why := acode.VerifyImage(img, cert)
	// non-trivial: a derived pair where some signature names the verifying certificate
	if c.Class != "none" {
		if es, _, _ := acode.Table(img); len(es) > 0 {
			for _, e := range es {
				if sd, err := cms.Parse(e.Blob); err == nil {
					named := false
					for _, s := range sd.Signers {
						if s.Names(cert) {
							named = true
						}
					}
					if named {
						hx.NonTrivial(img, c.Cert)
						if hx.WantSample() && len(img) < 2500 {
							hx.Sample(map[string]any{"class": c.Class, "role": c.Role, "base": c.Base, "image_hex": c.Img})
						}
						break
					}
				}
			}
		}
	}
	variant := len(img)
	if len(img) > 0 {
		variant += int(img[len(img)/3])
	}
	rd, _ := hx.ReaderAtFor(img, variant)
	bin, err := authenticode.Parse(rd)
	if err != nil {
		hx.Class("lib_parse_error")
		return appendRoute(c, img, cert)
	}
	if len(c.Orig) > 0 {
		// another image (the untampered original) is parsed while the derived one is alive
		authenticode.Parse(bytes.NewReader(c.Orig))
		hx.Class("original_parsed_in_between")
	}
	if variant%3 != 1 {
		// a caller that asked for the digest first and then reused the returned slice as scratch space - here to hold the
		// digest of the untampered original, the value the signature commits to: what Hash returns belongs to the caller,
		// the verification that follows must still look at the bytes of this image
		if d := bin.Hash(crypto.SHA256); d != nil {
			fillWith := make([]byte, len(d))
			if len(c.Orig) > 0 {
				if oh, oerr := pehash.Hash(c.Orig); oerr == nil {
					copy(fillWith, oh.Digest)
				}
			}
			copy(d, fillWith)
			hx.Class("digest_slice_overwritten_before_verify")
		}
	}
	ok, verr := bin.Verify(cert)
	// the same through signature objects that are parsed once and asked twice: first the genuine signer, then the certificate under test
	if !(ok && verr == nil) && len(c.Sign) > 0 {
		if sc, serr := x509.ParseCertificate(c.Sign); serr == nil {
			if sigs, sgerr := bin.Signatures(); sgerr == nil {
				for _, sg := range sigs {
					a, aerr := authenticode.ParseAuthenticode(sg.Certificate)
					if aerr != nil {
						continue
					}
					a.Verify(sc, hashedStream(img))
					if ok2, err2 := a.Verify(cert, hashedStream(img)); ok2 && err2 == nil {
						ok, verr = true, nil
						hx.Class("accepted_only_by_reused_signature_object")
					}
				}
			}
		}
	}
	if !bytes.Equal(img, []byte(c.Img)) {
		return fmt.Errorf("verification modified the image bytes handed to Parse")
	}
	if err := appendRoute(c, img, cert); err != nil {
		return err
	}
	if ok && verr == nil && refOK {
		// a signature object is asked about a reader the caller has already read from (the header was looked at, the reader
		// is reused): what it offers from here on is a proper tail of the hashed bytes, which nobody signed
		if sigs, sgerr := bin.Signatures(); sgerr == nil {
			for _, sg := range sigs {
				a, aerr := authenticode.ParseAuthenticode(sg.Certificate)
				if aerr != nil {
					continue
				}
				whole := hashedStream(img)
				if whole.Len() < 16 {
					continue
				}
				if ok1, _ := a.Verify(cert, whole); !ok1 {
					continue
				}
				k := 1 + int(img[len(img)/2])%(int(whole.Size())/2)
				if k%2 == 0 {
					// before that, a verification on the same object that broke off: the reader delivered exactly those first
					// k bytes and then failed. What that attempt had consumed must not count towards the next one
					if okf, errf := a.Verify(cert, io.MultiReader(io.LimitReader(hashedStream(img), int64(k)), brokenReader{})); okf && errf == nil {
						return fmt.Errorf("Authenticode.Verify reports success although the reader failed after %d of %d bytes", k, whole.Size())
					}
					hx.Class("signature_object_reused_after_a_verification_that_broke_off")
				}
				r := hashedStream(img)
				r.Seek(int64(k), io.SeekStart)
				hx.Class("signature_asked_about_a_reader_that_was_read_from_before")
				if ok2, err2 := a.Verify(cert, r); ok2 && err2 == nil {
					return fmt.Errorf("Authenticode.Verify reports success for a reader positioned %d bytes into the signed bytes: the %d bytes it has left are not what was signed", k, int(whole.Size())-k)
				}
			}
		}
	}
	if ok && verr == nil {
		hx.Class("lib_accepts/" + short)
		if !refOK {
			return fmt.Errorf("Verify reports success for a derived image (class %s, base %s, verifying certificate: %s, %d bytes) that the reference rejects: %s", c.Class, c.Base, c.Role, len(img), why)
		}
	} else {
		hx.Class("lib_rejects/" + short)
		if refOK && c.Class == "none" && c.Role == "signer" {
			// completeness on honest pairs is C03's subject; count it here so that a vacuous run is visible
			hx.Class("honest_pair_rejected_by_library")
		}
	}
	return nil
}

// brokenReader fails every Read.
type brokenReader struct{}

func (brokenReader) Read([]byte) (int, error) { return 0, errors.New("verif: injected read failure") }

// appendRoute checks the same signed image reached through the other route the API offers: the image without
// its table is parsed and the signature blobs are attached to that object with AppendSignature (how a detached
// signature is put onto an image), then the object is asked without being serialised in between.
func appendRoute(c Case, img []byte, cert *x509.Certificate) error {
	if es, _, terr := acode.Table(img); terr == nil && len(es) > 0 {
		if bare, serr := acode.StripTable(img); serr == nil {
			if b2, perr := authenticode.Parse(bytes.NewReader(bare)); perr == nil {
				var blobs [][]byte
				appended := true
				for _, e := range es {
					blobs = append(blobs, e.Blob)
					if b2.AppendSignature(append([]byte{}, e.Blob...)) != nil {
						appended = false
					}
				}
				if equiv, eerr := acode.WithTable(bare, acode.BuildTable(blobs)); eerr == nil && appended {
					hx.Class("route/parse_bare_then_append_blobs")
					ok2, err2 := b2.Verify(cert)
					if ok2 && err2 == nil {
						if ref2, why2 := acode.VerifyImage(equiv, cert); !ref2 {
							return fmt.Errorf("Verify reports success on an object made by Parse of the bare image + AppendSignature of the blobs (class %s, base %s, verifying certificate: %s) although the reference rejects that image: %s", c.Class, c.Base, c.Role, why2)
						}
					}
				}
			}
		}
	}
	return nil
}

var checker = hx.Checker[Case]{Property: "C02", Gen: genCase, Check: checkCase}

func TestC02(t *testing.T)       { checker.Rapid(t) }
func TestC02Replay(t *testing.T) { checker.Replay(t) }

// TestC02Pinned: the reference predicate accepts the sbsign-signed fixtures for
// their signer and rejects them after a covered byte changes, for another
// certificate, and after a consistent digest rewrite (signature no longer valid).
func TestC02Pinned(t *testing.T) {
	n := 0
	for _, f := range []string{"authenticode/testdata/test.pecoff.signed", "tests/data/binary/HelloWorld.efi.signed"} {
		b, ok := hx.RepoFile(f)
		if !ok {
			continue
		}
		for _, fx := range seeds.Fixtures() {
			if fx.Cert == nil {
				continue
			}
			if ok, _ := acode.VerifyImage(b, fx.Cert); !ok {
				continue
			}
			n++
			bad := append([]byte{}, b...)
			bad[len(bad)/3] ^= 1
			if ok, _ := acode.VerifyImage(bad, fx.Cert); ok {
				t.Fatalf("ORACLE-SELFCHECK-FAIL reference accepts a tampered %s", f)
			}
			if ok, _ := acode.VerifyImage(b, gen.FixedIdents()[0].Cert); ok {
				t.Fatalf("ORACLE-SELFCHECK-FAIL reference accepts %s under an unrelated certificate", f)
			}
			fixed, err := rewriteDigest(bad, true)
			if err != nil {
				t.Fatalf("ORACLE-SELFCHECK-FAIL cannot rewrite digest in %s: %v", f, err)
			}
			if ok, _ := acode.VerifyImage(fixed, fx.Cert); ok {
				t.Fatalf("ORACLE-SELFCHECK-FAIL reference accepts %s after tamper + digest rewrite", f)
			}
			break
		}
	}
	if n == 0 {
		t.Fatalf("ORACLE-SELFCHECK-FAIL no sbsign fixture accepted by the reference")
	}
	// the reference producer makes signatures the reference predicate accepts for the signer only
	o := gen.SmallPE
	o.Table = false
	for i := 0; i < 8; i++ {
		img := gen.PEImage(o).Example(i)
		a, b := gen.FixedIdents()[0], gen.FixedIdents()[1]
		signed, err := acode.Sign(img, a.Priv(), a.Cert, acode.SignOpts{ObsoleteBMP: i%2 == 0, NoCerts: i%3 == 0})
		if err != nil {
			t.Fatalf("ORACLE-SELFCHECK-FAIL reference signer: %v", err)
		}
		if ok, why := acode.VerifyImage(signed, a.Cert); !ok {
			t.Fatalf("ORACLE-SELFCHECK-FAIL reference rejects a reference-signed image: %s", why)
		}
		if ok, _ := acode.VerifyImage(signed, b.Cert); ok {
			t.Fatalf("ORACLE-SELFCHECK-FAIL reference accepts a reference-signed image under another certificate")
		}
	}
	fmt.Printf("ORACLE-SELFCHECK-OK reference image verification accepts %d sbsign fixtures and rejects their tampered / re-targeted / digest-rewritten variants\n", n)
}
