// corpus2json prints the arguments of a "go test fuzz v1" corpus file as a
// JSON array of hexadecimal strings ([]byte and string arguments only).
package main

import (
	"encoding/hex"
	"encoding/json"
	"fmt"
	"os"
	"strconv"
	"strings"
)

func main() {
	if len(os.Args) != 2 {
		fmt.Fprintln(os.Stderr, "usage: corpus2json FILE")
		os.Exit(2)
	}
	b, err := os.ReadFile(os.Args[1])
	if err != nil {
		fmt.Fprintln(os.Stderr, err)
		os.Exit(2)
	}
	lines := strings.Split(strings.TrimRight(string(b), "\n"), "\n")
	if len(lines) == 0 || !strings.HasPrefix(lines[0], "go test fuzz v1") {
		fmt.Fprintln(os.Stderr, "not a go fuzz corpus file")
		os.Exit(2)
	}
	var out []string
	for _, l := range lines[1:] {
		l = strings.TrimSpace(l)
		var lit string
		switch {
		case strings.HasPrefix(l, "[]byte(") && strings.HasSuffix(l, ")"):
			lit = l[len("[]byte(") : len(l)-1]
		case strings.HasPrefix(l, "string(") && strings.HasSuffix(l, ")"):
			lit = l[len("string(") : len(l)-1]
		default:
			fmt.Fprintln(os.Stderr, "unsupported corpus line:", l)
			os.Exit(2)
		}
		s, err := strconv.Unquote(lit)
		if err != nil {
			fmt.Fprintln(os.Stderr, "cannot unquote:", err)
			os.Exit(2)
		}
		out = append(out, hex.EncodeToString([]byte(s)))
	}
	json.NewEncoder(os.Stdout).Encode(out)
}
