// genkeys creates the committed RSA key pool (run once; keys are throw-away test keys).
package main

import (
	"crypto/rand"
	"crypto/rsa"
	"crypto/x509"
	"encoding/pem"
	"fmt"
	"os"
)

func main() {
	sizes := []int{2048, 2048, 2048, 2048, 3072, 3072, 4096, 4096, 2047, 3071} // the last two: modulus bit length not a multiple of 8
	for i, s := range sizes {
		if _, err := os.Stat(fmt.Sprintf("gen/keys/k%d_%d.pem", i, s)); err == nil {
			continue // keep the committed keys
		}
		k, err := rsa.GenerateKey(rand.Reader, s)
		if err != nil {
			panic(err)
		}
		der, _ := x509.MarshalPKCS8PrivateKey(k)
		b := pem.EncodeToMemory(&pem.Block{Type: "PRIVATE KEY", Bytes: der})
		if err := os.WriteFile(fmt.Sprintf("gen/keys/k%d_%d.pem", i, s), b, 0644); err != nil {
			panic(err)
		}
	}
}
