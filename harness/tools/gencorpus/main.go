// gencorpus produces the committed corpus of OpenSSL-made signatures
// (seeds/corpus/openssl.json). Run once with VERIF_OPENSSL set; the checks use
// the corpus where the binary is absent and in addition to fresh signatures.
package main

import (
	"crypto/x509"
	"encoding/hex"
	"encoding/json"
	"encoding/pem"
	"fmt"
	"os"

	"verifharness/gen"
	"verifharness/ossl"
)

type Entry struct {
	Config   string `json:"config"`
	Sig      string `json:"sig"`
	Content  string `json:"content"`
	Cert     string `json:"cert"`
	Key      int    `json:"key"`
	Detached bool   `json:"detached"`
	NoAttr   bool   `json:"noattr"`
}

func main() {
	if !ossl.Available() {
		fmt.Fprintln(os.Stderr, "openssl not available (set VERIF_OPENSSL)")
		os.Exit(2)
	}
	defer ossl.Cleanup()
	var out []Entry
	contents := [][]byte{[]byte("hello world\n"), {}, make([]byte, 4097)}
	for i := range contents[2] {
		contents[2][i] = byte(i * 31)
	}
	for _, ki := range []int{0, 4, 6} {
		id := gen.FixedIdents()[ki]
		kder, _ := x509.MarshalPKCS8PrivateKey(id.Priv())
		kpem := pem.EncodeToMemory(&pem.Block{Type: "PRIVATE KEY", Bytes: kder})
		cpem := pem.EncodeToMemory(&pem.Block{Type: "CERTIFICATE", Bytes: id.Cert.Raw})
		for _, cmsMode := range []bool{false, true} {
			for mask := 0; mask < 8; mask++ {
				o := ossl.SignOpts{CMS: cmsMode, NoDetach: mask&1 != 0, NoSMIMECap: mask&2 != 0, NoCerts: mask&4 != 0}
				variants := []ossl.SignOpts{o}
				if cmsMode && mask < 2 {
					c := o
					c.CAdES = true
					r := o
					r.Receipt = true
					variants = append(variants, c, r)
				}
				if mask == 0 {
					n := o
					n.NoAttr = true
					variants = append(variants, n)
				}
				for _, v := range variants {
					ci := (ki + mask) % len(contents)
					sig, err := ossl.Sign(kpem, cpem, contents[ci], v)
					if err != nil {
						fmt.Fprintln(os.Stderr, "skip", v.Name(), err)
						continue
					}
					out = append(out, Entry{Config: v.Name(), Sig: hex.EncodeToString(sig), Content: hex.EncodeToString(contents[ci]), Cert: hex.EncodeToString(id.Cert.Raw), Key: ki, Detached: !v.NoDetach, NoAttr: v.NoAttr})
				}
			}
		}
	}
	b, _ := json.MarshalIndent(out, "", " ")
	if err := os.WriteFile("seeds/corpus/openssl.json", b, 0644); err != nil {
		panic(err)
	}
	fmt.Println(len(out), "corpus entries")
}
