package sandbox

import (
	"errors"
	"log"
	"time"
)

var sink [][]byte

func init() {
	Register(map[string]Entry{
		"selftest_ok":    func([]byte) (int, error) { return 1, nil },
		"selftest_error": func([]byte) (int, error) { return 0, errors.New("an error") },
		"selftest_panic": func(in []byte) (int, error) { var a []int; _ = a[len(in)+3]; return 0, nil },
		"selftest_exit":  func([]byte) (int, error) { log.Fatal("selftest exit"); return 0, nil },
		"selftest_alloc": func([]byte) (int, error) { sink = [][]byte{make([]byte, 64<<20)}; sink = nil; return 1, nil },
		"selftest_hang":  func([]byte) (int, error) { time.Sleep(time.Hour); return 0, nil },
	})
}
