// Package sandbox runs library entry points on untrusted inputs in persistent
// worker processes (the test binary re-executed with VERIF_WORKER=1) and
// classifies what happened: returned / error / panic (recovered in the worker,
// with the panic site) / exit (the process ended: log.Fatal, os.Exit, fatal
// error; call site taken from the log line) / timeout / alloc (bytes allocated
// while serving the request exceed the bound).
package sandbox

import (
	"bufio"
	"bytes"
	"encoding/binary"
	"errors"
	"fmt"
	"io"
	"log"
	"math"
	"os"
	"os/exec"
	"regexp"
	"runtime"
	"runtime/debug"
	"runtime/metrics"
	"sort"
	"strings"
	"sync"
	"syscall"
	"time"
)

// Entry is a library entry point: it returns how far the input got (stage) and
// the error the library returned (nil = returned a value).
type Entry func(input []byte) (stage int, err error)

var entries = map[string]Entry{}

// Register adds entry points (call from an init function of the test package).
func Register(m map[string]Entry) {
	for k, v := range m {
		entries[k] = v
	}
}

// EntryNames lists the registered entry points.
func EntryNames() []string {
	var n []string
	for k := range entries {
		n = append(n, k)
	}
	sort.Strings(n)
	return n
}

// Outcome kinds.
const (
	Returned = "returned"
	Error    = "error"
	Panic    = "panic"
	Exit     = "exit"
	Timeout  = "timeout"
	Alloc    = "alloc"
)

// Result is the classified outcome of one request.
type Result struct {
	Outcome string
	Stage   int
	Alloc   uint64 // bytes allocated while serving the request (cumulative, garbage included)
	Large   uint64 // of those, a lower bound of the bytes that went into objects larger than 32 KiB
	Site    string // panic site / exit call site / heaviest allocation site
	Detail  string
	Micros  int64
}

// Bad reports whether the outcome violates "finish with a value or an error".
func (r Result) Bad() bool { return r.Outcome != Returned && r.Outcome != Error }

// Allocation bounds for an input of n bytes. Two things are measured per request (runtime/metrics, exact):
// the cumulative bytes allocated, and how much of that went into large objects (> 32 KiB, the runtime's large
// object class). A linear decoder with a big per-element constant (8 KiB of scratch buffers for every 4-byte device
// path node: factor 2000) produces much garbage but no large objects beyond a few copies of its input; memory that
// is unrelated to the input size (a slice sized by a declared count or length) shows up as large objects.
// Violation: Large > LargeBound(n), or Alloc > AllocBound(n).
func AllocBound(n int) uint64 { return 16<<20 + 8192*uint64(n) }

// LargeBound bounds the bytes in objects larger than 32 KiB: buffers that grow by doubling up to the input size,
// a few copies of the input, and 16 MiB of slack.
func LargeBound(n int) uint64 { return 16<<20 + 64*uint64(n) }

// overBound applies both bounds.
func overBound(r Result, n int) bool { return r.Alloc > AllocBound(n) || r.Large > LargeBound(n) }

// ---------------------------------------------------------------------------
// worker side

const (
	flagProfile = 1
)

// MaybeWorker turns the process into a worker when VERIF_WORKER=1 (call first in TestMain).
func MaybeWorker() {
	if os.Getenv("VERIF_WORKER") != "1" {
		return
	}
	log.SetFlags(log.Llongfile)
	// a worker that is busy (or spinning) in library code never looks at its stdin: leave when the parent is gone
	parent := os.Getppid()
	go func() {
		for {
			time.Sleep(500 * time.Millisecond)
			if os.Getppid() != parent {
				os.Exit(3)
			}
		}
	}()
	in := bufio.NewReaderSize(os.Stdin, 1<<17)
	out := bufio.NewWriterSize(os.Stdout, 1<<16)
	for {
		var hdr [12]byte
		if _, err := io.ReadFull(in, hdr[:]); err != nil {
			os.Exit(0)
		}
		flags := binary.LittleEndian.Uint32(hdr[0:])
		nl := binary.LittleEndian.Uint32(hdr[4:])
		il := binary.LittleEndian.Uint32(hdr[8:])
		name := make([]byte, nl)
		input := make([]byte, il)
		if _, err := io.ReadFull(in, name); err != nil {
			os.Exit(0)
		}
		if _, err := io.ReadFull(in, input); err != nil {
			os.Exit(0)
		}
		res := serve(string(name), input, flags)
		var b []byte
		b = append(b, res.Outcome[0])
		b = binary.LittleEndian.AppendUint64(b, res.Alloc)
		b = binary.LittleEndian.AppendUint64(b, res.Large)
		b = binary.LittleEndian.AppendUint32(b, uint32(res.Stage))
		b = binary.LittleEndian.AppendUint32(b, uint32(len(res.Site)))
		b = append(b, res.Site...)
		b = binary.LittleEndian.AppendUint32(b, uint32(len(res.Detail)))
		b = append(b, res.Detail...)
		out.Write(b)
		out.Flush()
	}
}

// allocSnapshot is the cumulative allocation state of the process.
type allocSnapshot struct {
	bytes uint64
	small uint64 // upper bound of the bytes in objects of the small size classes (<= 32 KiB)
}

func allocated() allocSnapshot {
	sample := []metrics.Sample{{Name: "/gc/heap/allocs:bytes"}, {Name: "/gc/heap/allocs-by-size:bytes"}}
	metrics.Read(sample)
	snap := allocSnapshot{bytes: sample[0].Value.Uint64()}
	if sample[1].Value.Kind() == metrics.KindFloat64Histogram {
		h := sample[1].Value.Float64Histogram()
		// bucket i counts objects of size in (Buckets[i], Buckets[i+1]]; the last bucket is open-ended (large objects)
		for i, c := range h.Counts {
			if i+1 < len(h.Buckets) && h.Buckets[i+1] <= 32768 && !math.IsInf(h.Buckets[i+1], 1) {
				snap.small += c * uint64(h.Buckets[i+1])
			}
		}
	}
	return snap
}

// since returns the bytes allocated since before, and a lower bound of the bytes of those that are in large objects.
func (before allocSnapshot) since() (total, large uint64) {
	now := allocated()
	total = now.bytes - before.bytes
	small := now.small - before.small
	if total > small {
		large = total - small
	}
	return total, large
}

var siteRe = regexp.MustCompile(`^\s*(\S+/go-uefi/\S+|debug/pe\.\S+|github\.com/foxboron/\S+)\(`)

// siteOf extracts the first frame inside the library (or debug/pe) from a stack trace text.
func siteOf(stack string) string {
	lines := strings.Split(stack, "\n")
	first := ""
	for i := 0; i+1 < len(lines); i++ {
		l := strings.TrimSpace(lines[i])
		if strings.HasPrefix(l, "runtime.") || strings.HasPrefix(l, "panic(") || strings.HasPrefix(l, "goroutine ") || l == "" || strings.HasPrefix(l, "/") {
			continue
		}
		fn := l
		if j := strings.LastIndex(fn, "("); j > 0 {
			fn = fn[:j]
		}
		if strings.Contains(fn, "verifharness/") || strings.HasPrefix(fn, "testing.") || strings.HasPrefix(fn, "runtime/debug") {
			continue
		}
		loc := strings.TrimSpace(lines[i+1])
		if k := strings.Index(loc, " +0x"); k > 0 {
			loc = loc[:k]
		}
		if first == "" {
			first = fn + " " + loc
		}
		if strings.Contains(fn, "foxboron/go-uefi") {
			if first != fn+" "+loc {
				return fn + " " + loc + " (via " + strings.Fields(first)[0] + ")"
			}
			return fn + " " + loc
		}
	}
	return first
}

func serve(name string, input []byte, flags uint32) (res Result) {
	e, ok := entries[name]
	if !ok {
		return Result{Outcome: Error, Detail: "harness: unknown entry " + name}
	}
	if flags&flagProfile != 0 {
		runtime.MemProfileRate = 1
	}
	before := allocated()
	func() {
		defer func() {
			if r := recover(); r != nil {
				st := string(debug.Stack())
				res.Outcome = Panic
				res.Site = siteOf(st)
				res.Detail = fmt.Sprintf("panic: %v", r)
				if len(res.Detail) > 400 {
					res.Detail = res.Detail[:400]
				}
			}
		}()
		stage, err := e(input)
		res.Stage = stage
		if err != nil {
			res.Outcome = Error
			res.Detail = err.Error()
			if len(res.Detail) > 200 {
				res.Detail = res.Detail[:200]
			}
		} else {
			res.Outcome = Returned
		}
	}()
	res.Alloc, res.Large = before.since()
	if flags&flagProfile != 0 {
		res.Site = heaviestAllocSite()
		runtime.MemProfileRate = 512 * 1024
	}
	return res
}

func heaviestAllocSite() string {
	runtime.GC()
	n, _ := runtime.MemProfile(nil, true)
	recs := make([]runtime.MemProfileRecord, n+50)
	n, ok := runtime.MemProfile(recs, true)
	if !ok {
		return ""
	}
	var best *runtime.MemProfileRecord
	for i := 0; i < n; i++ {
		if best == nil || recs[i].AllocBytes > best.AllocBytes {
			best = &recs[i]
		}
	}
	if best == nil {
		return ""
	}
	frames := runtime.CallersFrames(best.Stack())
	var parts []string
	for {
		f, more := frames.Next()
		if f.Function != "" && !strings.HasPrefix(f.Function, "runtime.") {
			parts = append(parts, f.Function)
		}
		if !more || len(parts) >= 8 {
			break
		}
	}
	return fmt.Sprintf("%d bytes at %s", best.AllocBytes, strings.Join(parts, " <- "))
}

// ---------------------------------------------------------------------------
// parent side

type worker struct {
	cmd    *exec.Cmd
	in     io.WriteCloser
	out    *bufio.Reader
	stderr *tail
}

type tail struct {
	mu sync.Mutex
	b  []byte
}

func (t *tail) Write(p []byte) (int, error) {
	t.mu.Lock()
	t.b = append(t.b, p...)
	if len(t.b) > 8192 {
		t.b = t.b[len(t.b)-8192:]
	}
	t.mu.Unlock()
	return len(p), nil
}
func (t *tail) String() string { t.mu.Lock(); defer t.mu.Unlock(); return string(t.b) }

// Pool is a (single) persistent worker that is respawned after abnormal outcomes.
type Pool struct {
	mu       sync.Mutex
	w        *worker
	Deadline time.Duration
	Spawns   int
	// hangs are expensive to shrink (every candidate costs a full deadline): confirmed timeouts are remembered by
	// input, and after TimeoutBudget of them further hanging candidates are cut off after one second and not judged
	TimeoutBudget   int
	confirmed       map[string]Result
	IgnoredTimeouts int
}

// NewPool creates the pool; the worker is started lazily.
func NewPool() *Pool {
	return &Pool{Deadline: 4 * time.Second, TimeoutBudget: 3, confirmed: map[string]Result{}}
}

func (p *Pool) spawn() (*worker, error) {
	cmd := exec.Command(os.Args[0], "-test.run", "^$")
	cmd.Env = append(os.Environ(), "VERIF_WORKER=1", "VERIF_STATS=", "VERIF_CASEFILE=", "VERIF_JOURNAL=")
	// the kernel kills the worker when this process goes away, also when the worker is wedged so badly that its own
	// watchdog goroutine no longer runs (seen once: a worker spinning for hours with its parent long gone)
	cmd.SysProcAttr = &syscall.SysProcAttr{Pdeathsig: syscall.SIGKILL}
	in, err := cmd.StdinPipe()
	if err != nil {
		return nil, err
	}
	out, err := cmd.StdoutPipe()
	if err != nil {
		return nil, err
	}
	t := &tail{}
	cmd.Stderr = t
	if err := cmd.Start(); err != nil {
		return nil, err
	}
	p.Spawns++
	return &worker{cmd: cmd, in: in, out: bufio.NewReaderSize(out, 1<<16), stderr: t}, nil
}

func (w *worker) kill() {
	w.in.Close()
	w.cmd.Process.Kill()
	w.cmd.Wait()
}

// Close stops the worker.
func (p *Pool) Close() {
	p.mu.Lock()
	defer p.mu.Unlock()
	if p.w != nil {
		p.w.kill()
		p.w = nil
	}
}

var exitSiteRe = regexp.MustCompile(`(?m)^(\S+\.go:\d+): `)

// ErrInfra is returned when the sandbox itself failed.
var ErrInfra = errors.New("sandbox infrastructure failure")

func (p *Pool) roundTrip(entry string, input []byte, flags uint32, deadline time.Duration) (Result, error) {
	if p.w == nil {
		w, err := p.spawn()
		if err != nil {
			return Result{}, fmt.Errorf("%w: %v", ErrInfra, err)
		}
		p.w = w
	}
	w := p.w
	var req []byte
	req = binary.LittleEndian.AppendUint32(req, flags)
	req = binary.LittleEndian.AppendUint32(req, uint32(len(entry)))
	req = binary.LittleEndian.AppendUint32(req, uint32(len(input)))
	req = append(req, entry...)
	req = append(req, input...)
	type resp struct {
		r   Result
		err error
	}
	ch := make(chan resp, 1)
	start := time.Now()
	go func() {
		if _, err := w.in.Write(req); err != nil {
			ch <- resp{err: err}
			return
		}
		var hdr [25]byte
		if _, err := io.ReadFull(w.out, hdr[:]); err != nil {
			ch <- resp{err: err}
			return
		}
		var r Result
		switch hdr[0] {
		case 'r':
			r.Outcome = Returned
		case 'e':
			r.Outcome = Error
		case 'p':
			r.Outcome = Panic
		default:
			ch <- resp{err: fmt.Errorf("bad outcome byte %q", hdr[0])}
			return
		}
		r.Alloc = binary.LittleEndian.Uint64(hdr[1:])
		r.Large = binary.LittleEndian.Uint64(hdr[9:])
		r.Stage = int(binary.LittleEndian.Uint32(hdr[17:]))
		sl := binary.LittleEndian.Uint32(hdr[21:])
		site := make([]byte, sl)
		if _, err := io.ReadFull(w.out, site); err != nil {
			ch <- resp{err: err}
			return
		}
		var dl [4]byte
		if _, err := io.ReadFull(w.out, dl[:]); err != nil {
			ch <- resp{err: err}
			return
		}
		detail := make([]byte, binary.LittleEndian.Uint32(dl[:]))
		if _, err := io.ReadFull(w.out, detail); err != nil {
			ch <- resp{err: err}
			return
		}
		r.Site, r.Detail = string(site), string(detail)
		ch <- resp{r: r}
	}()
	select {
	case x := <-ch:
		if x.err != nil {
			// the worker died: exit status + stderr tell why
			done := make(chan struct{})
			go func() { w.cmd.Wait(); close(done) }()
			select {
			case <-done:
			case <-time.After(5 * time.Second):
				w.cmd.Process.Kill()
				<-done
			}
			p.w = nil
			se := w.stderr.String()
			r := Result{Outcome: Exit, Detail: tailStr(se, 600), Micros: time.Since(start).Microseconds()}
			if strings.Contains(se, "out of memory") || strings.Contains(se, "cannot allocate memory") {
				r.Outcome = Alloc
				r.Site = "runtime: out of memory"
				return r, nil
			}
			if strings.Contains(se, "fatal error:") || strings.Contains(se, "goroutine ") {
				r.Site = siteOf(se)
				if m := regexp.MustCompile(`fatal error: (.*)`).FindStringSubmatch(se); m != nil {
					r.Detail = "fatal error: " + m[1] + " | " + r.Detail
				}
				return r, nil
			}
			if m := exitSiteRe.FindAllStringSubmatch(se, -1); len(m) > 0 {
				r.Site = m[len(m)-1][1]
			}
			if w.cmd.ProcessState != nil {
				r.Detail = fmt.Sprintf("%s | %s", w.cmd.ProcessState.String(), r.Detail)
			}
			return r, nil
		}
		x.r.Micros = time.Since(start).Microseconds()
		return x.r, nil
	case <-time.After(deadline):
		w.kill()
		p.w = nil
		return Result{Outcome: Timeout, Detail: fmt.Sprintf("no answer within %s", deadline), Micros: time.Since(start).Microseconds()}, nil
	}
}

func tailStr(s string, n int) string {
	if len(s) > n {
		return s[len(s)-n:]
	}
	return s
}

// Run executes one request and classifies the outcome. Timeouts are only
// reported when they reproduce alone in a fresh worker with a long deadline;
// allocation excesses are re-run with memory profiling to name the site.
func (p *Pool) Run(entry string, input []byte) (Result, error) {
	p.mu.Lock()
	defer p.mu.Unlock()
	key := entry + "\x00" + string(input)
	if c, ok := p.confirmed[key]; ok {
		return c, nil
	}
	deadline := p.Deadline
	if len(p.confirmed) >= p.TimeoutBudget {
		deadline = time.Second
	}
	r, err := p.roundTrip(entry, input, 0, deadline)
	if err != nil {
		return r, err
	}
	if r.Outcome == Timeout {
		if len(p.confirmed) >= p.TimeoutBudget {
			// enough hangs have been established in this process: do not spend more time on further candidates
			p.IgnoredTimeouts++
			return Result{Outcome: Returned, Detail: "timeout not judged (budget of confirmed timeouts used up)"}, nil
		}
		r2, err := p.roundTrip(entry, input, 0, 6*p.Deadline)
		if err != nil {
			return r2, err
		}
		if r2.Outcome != Timeout {
			r2.Detail = "(slow under load, not a timeout) " + r2.Detail
			r = r2
		} else {
			p.confirmed[key] = r
		}
	}
	if (r.Outcome == Returned || r.Outcome == Error) && overBound(r, len(input)) {
		total, large := r.Alloc, r.Large
		r2, err := p.roundTrip(entry, input, flagProfile, 6*p.Deadline)
		if err == nil && r2.Site != "" {
			r.Site = r2.Site
		}
		r.Outcome = Alloc
		r.Alloc, r.Large = total, large
		r.Detail = fmt.Sprintf("%d bytes allocated for a %d-byte input, at least %d of them in objects larger than 32 KiB (bounds: %d in total, %d in large objects)", total, len(input), large, AllocBound(len(input)), LargeBound(len(input)))
	}
	return r, nil
}

// InProcess runs an entry in the calling process (native fuzz targets): panics
// are recovered, allocation measured; a log.Fatal ends the process, which the
// fuzzing engine records as a crasher.
func InProcess(entry string, input []byte) Result {
	var buf bytes.Buffer
	_ = buf
	r := serve(entry, input, 0)
	if (r.Outcome == Returned || r.Outcome == Error) && overBound(r, len(input)) {
		r.Outcome = Alloc
		r.Detail = fmt.Sprintf("%d bytes allocated for a %d-byte input, at least %d of them in objects larger than 32 KiB", r.Alloc, len(input), r.Large)
	}
	return r
}
