"""Per-property configuration of the driver (/verif/check)."""

PROPS = {}

# properties not (yet) claimed, with the reason; kept current by hand
NOT_APPLICABLE = [dict(property_id=i, reason='check not built yet in this round (planned, see DESIGN.md section 3)') for i in ['C01', 'C02', 'C03', 'C04', 'C05', 'C06', 'C07', 'C08', 'C09', 'C10', 'C11', 'C12', 'C13', 'C14', 'C15', 'C16', 'C17', 'C18', 'C19'] if i not in ('C17',)]

# commits in /repo that add guarded hook code (none: every observation point is public API)
HOOK_COMMITS = []

PROPS["C17"] = dict(
    pkg="c17",
    level="exploration",
    technique="property-based testing (rapid): round-trip and differential against a reference GUID/UTF-16 codec",
    level_text=("Generated search over GUID values and NUL-free Unicode strings with an independent reference codec: text form, "
                "big-endian bytes, equality on one-byte-different pairs, wire layout observed through the public encoders/decoders, "
                "UTF-16 encode/decode round-trip and terminator requirement. No counterexample in the generated cases; not exhaustive over 2^128 GUIDs."),
    level_note="Trusts ref/guid (40 lines, checked against GUID strings pinned in the repository tests) and Go's unicode/utf16.",
    rule=("rapid-generated (GUID pair, Unicode string, data bytes) cases; GUID bytes mix uniform, 0x00, 0xff and "
          "zero-high-nibble bytes, the second GUID differs from the first in exactly one byte (or is equal, 10%); strings are "
          "valid NUL-free Unicode incl. empty, BMP, surrogate pairs, U+FEFF/U+FFFD, up to 4096 runes. Non-trivial = GUID with a "
          "field that has a leading zero nibble, or string with a non-ASCII rune; distinct by SHA-256 of (GUIDs, string)."),
    assumptions=["reference GUID codec ref/guid (validated against GUID strings pinned in the repository's tests)",
                 "Go's unicode/utf16 as the UTF-16 reference"],
    quick=dict(checks=25000, shards=2, timeout=600),
    thorough=dict(checks=250000, shards=16, timeout=3000),
)
