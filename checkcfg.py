"""Per-property configuration of the driver (/verif/check)."""

PROPS = {}

# properties not (yet) claimed, with the reason; kept current by hand
_NA = lambda: [dict(property_id=i, reason='check not built yet in this round (planned, see DESIGN.md section 3)') for i in ['C01', 'C02', 'C03', 'C04', 'C05', 'C06', 'C07', 'C08', 'C09', 'C10', 'C11', 'C12', 'C13', 'C14', 'C15', 'C16', 'C17', 'C18', 'C19'] if i not in PROPS]

# commits in /repo that add guarded hook code (none: every observation point is public API)
HOOK_COMMITS = []

PROPS["C17"] = dict(
    pkg="c17",
    level="exploration",
    technique="property-based testing (rapid): round-trip and differential against a reference GUID/UTF-16 codec",
    level_text=("Generated search over GUID values and NUL-free Unicode strings with an independent reference codec: text form, "
                "big-endian bytes, equality on one-byte-different pairs, wire layout observed through the public encoders/decoders, "
                "UTF-16 encode/decode round-trip and terminator requirement. No counterexample in the generated cases; not exhaustive over 2^128 GUIDs."),
    level_note="Trusts ref/guid (40 lines, checked against GUID strings pinned in the repository tests) and Go's unicode/utf16.",
    rule=("rapid-generated (GUID pair, Unicode string, data bytes) cases; GUID bytes mix uniform, 0x00, 0xff and "
          "zero-high-nibble bytes, the second GUID differs from the first in exactly one byte (or is equal, 10%); strings are "
          "valid NUL-free Unicode incl. empty, BMP, surrogate pairs, U+FEFF/U+FFFD, up to 4096 runes, and at a low rate that string repeated up to 64 KiB .. 33 MiB. Non-trivial = GUID with a "
          "field that has a leading zero nibble, or string with a non-ASCII rune; distinct by SHA-256 of (GUIDs, string)."),
    assumptions=["reference GUID codec ref/guid (validated against GUID strings pinned in the repository's tests)",
                 "Go's unicode/utf16 as the UTF-16 reference"],
    arch386=True,  # one more shard runs the same check built with GOARCH=386 (32-bit int/uint); left out with a note where such a binary cannot run
    quick=dict(checks=25000, shards=2, timeout=600),
    thorough=dict(checks=250000, shards=16, timeout=3000),
)

PROPS["C07"] = dict(
    pkg="c07",
    level="exploration",
    technique="property-based testing (rapid): differential against a from-the-spec reference ESL codec + encode/decode round-trip, both directions",
    level_text=("Generated well-formed EFI_SIGNATURE_LIST streams (0..6 lists: X.509 with any certificate size/count, SHA-256, "
                "EXTERNAL_MANAGEMENT, empty lists, adjacent lists of equal type and size) are decoded by the library and compared field by field "
                "with a reference decoder written from the specification layout, then re-encoded and compared byte for byte; databases built "
                "through Append/Remove/AppendList are encoded, checked well-formed by the reference and re-decoded to an equal database."),
    level_note="Trusts ref/esl (reference codec; round-trips the repository's .esl fixtures and captured variables at the start of every run).",
    rule=("rapid-generated case = reference-encoded well-formed stream (+ optionally 1..12 builder operations applied to the decoded database). At a low rate the stream is one of three deterministic giant streams (one 16 MiB entry, 34 lists of 1 MiB, one list of 350000 hashes) named by kind in the case. "
          "Non-trivial = stream with >=2 lists or >=2 entries or an EXTERNAL_MANAGEMENT list or an empty list; distinct by SHA-256 of (stream, ops)."),
    assumptions=["ref/esl reference codec", "builder operations only use types the decoder handles (other types belong to C09)"],
    quick=dict(checks=7500, shards=4, timeout=600),
    thorough=dict(checks=150000, shards=16, timeout=3000),
)

PROPS["C08"] = dict(
    pkg="c08",
    level="exploration",
    technique="property-based testing (rapid) over near-language mutations with a reference accept/reject decoder; exhaustive truncation points per stream; native fuzzing (thorough)",
    level_text=("Inputs near the well-formed language are derived from generated streams: every truncation point (exhaustive per stream for a "
                "quarter of the cases), ListSize/HeaderSize/SignatureSize set to boundary values, type GUID replaced by valid-but-unhandled or "
                "random GUIDs, trailing and inserted garbage, pairs of these. Oracle: a library result without error implies that the reference "
                "decoder accepts the whole input and yields the same lists. Thorough tier adds coverage-guided native fuzzing with the same oracle."),
    level_note="Trusts ref/esl.Decode as the statement of 'well-formed' (whole input consumed, ListSize = 28 + HeaderSize + n*Size, Size >= 16, SHA-256 Size = 48, handled types only).",
    rule=("case = small reference-encoded stream + 0..2 mutations (+ every truncation point of the result for 1 case in 4); at a low rate the stream is a deterministic giant stream (16-34 MiB), whole or cut once; every input fed to the decoder "
          "counts as one evaluation. Non-trivial = input that differs from the well-formed stream and that the reference rejects; distinct by SHA-256 of the input."),
    assumptions=["ref/esl reference decoder"],
    exhaustive_note="every truncation point of each 'AllCuts' stream (class every_truncation_point)",
    quick=dict(checks=5000, shards=4, timeout=600),
    thorough=dict(checks=120000, shards=16, timeout=3000),
    fuzz=[("FuzzC08", 90)],
)

PROPS["C09"] = dict(
    pkg="c09",
    level="exploration",
    technique="stateful property-based testing (rapid): generated operation histories, rule per operation over the flattened entry view, invariants after every step",
    level_text=("Generated histories (1..40, thorough 80 steps) of Append/AppendSignature/Remove/RemoveSignature/BytesExists/SigDataExists/Exists/"
                "AppendList/AppendDatabase/list-level AppendBytes+RemoveBytes on member lists/encode-decode over a small colliding universe of types "
                "(X509, SHA256, SHA1, SHA384, unknown GUID), owners and data values (32-byte hashes, 31/33-byte values, DER and PEM certificates of equal "
                "and different length), starting from empty or from a decoded multi-list stream. After every step: the flattened entry view must relate "
                "to the previous one by the rule of the operation, return values must match the rule (error iff duplicate / unknown type / wrong size / absent), "
                "membership queries must equal a lookup in the view, no list holds two equal entries, size fields satisfy the list equations and Bytes() "
                "is a well-formed stream for the reference codec."),
    level_note=("Trusts ref/esl and the rules coded in props/c09. Left open by the statement and accepted either way (counted): wrong-size values of hash types other than SHA-256. "
                "Excluded by construction (counted): AppendList of an entry-less list and list-level removal of the last entry of a member list (both leave an entry-less list with SignatureSize 0)."),
    rule=("case = start stream + operation list; arguments are drawn from the current entries with probability 0.6 so that duplicates and successful removes are frequent. "
          "Non-trivial = history with a successful remove after >=2 successful appends, or a PEM append stored as DER, or two list types, or a multi-list start state, or an AppendList/AppendDatabase; "
          "distinct by SHA-256 of (start, ops)."),
    assumptions=["ref/esl reference codec", "operation rules of props/c09 state exactly the C09 statement"],
    quick=dict(checks=5000, shards=4, timeout=600),
    thorough=dict(checks=60000, shards=16, timeout=3000),
)

PROPS["C10"] = dict(
    pkg="c10",
    level="exploration",
    technique="property-based testing (rapid): round-trip and differential against a reference descriptor codec with a byte-counting chunked reader; native fuzzing (thorough)",
    level_text=("Reference-encoded descriptors (any 16 timestamp bytes, certificate data 0..64 KiB with boundary sizes, any type GUID) followed by 0..300 "
                "payload bytes, and plain WIN_CERTIFICATEs of any type, are decoded through a reader that counts the bytes taken: consumed == 16 + dwLength, "
                "payload untouched, every field equals the reference decoding, Marshal/Write of the decoded value reproduces the consumed bytes, "
                "decode(encode(v)) == v; sbvarsign fixtures round-trip. Thorough tier fuzzes the decoders with the same oracle."),
    level_note="Trusts ref/authvar (validated per run: it splits the sbvarsign fixtures into a descriptor and a payload that the ESL reference accepts).",
    rule=("case = (timestamp, type GUID, certificate data, payload, WIN_CERTIFICATE type, reader chunk size). Non-trivial = certificate data >= 1 byte and payload >= 1 byte; "
          "distinct by SHA-256 of the four byte strings."),
    assumptions=["ref/authvar reference codec"],
    quick=dict(checks=20000, shards=2, timeout=600),
    thorough=dict(checks=200000, shards=16, timeout=3000),
    fuzz=[("FuzzC10", 90)],
)

PROPS["C01"] = dict(
    pkg="c01",
    level="exploration",
    technique="property-based testing (rapid): differential against a literal from-the-spec PE hash + metamorphic byte flips per region (exhaustive per image in the thorough tier)",
    level_text=("Constructed well-formed PE32/PE32+ images (0..8 sections in permuted header order, zero-size sections with wild pointers, gaps, header padding, "
                "trailing data, any length mod 8, any e_lfanew, 5..18 data directories, optional existing certificate table) are hashed by the library and by a "
                "literal transcription of the Microsoft algorithm (no debug/pe, no shared code). Per image 8..24 byte changes at region boundaries and uniform positions: "
                "a covered byte must change the digest, checksum / directory address / table bytes must not, and a mutated image that is still well-formed is compared again. "
                "Thorough: every position of images <= 2 KiB."),
    level_note=("Trusts ref/pehash; validated per run against the digest sbsign embedded in two signed fixtures and four digests pinned in the repository tests, and on gap-free images "
                "against the statement itself (covered == all bytes minus checksum, directory entry, table). Images the library's header reader (debug/pe) refuses after a byte change are not judged."),
    rule=("case = generated image + byte changes; each hashed image counts as one evaluation. Non-trivial = image with >=2 non-empty sections whose header order differs from file order, "
          "or PE32, or trailing data, or length mod 8 != 0, or an existing table; distinct by SHA-256 of the image."),
    assumptions=["ref/pehash reference implementation", "well-formed = ref/pehash.WellFormed (sections inside the content, after the headers, non-overlapping; table 8-aligned at end of file)"],
    exhaustive_note="thorough tier: every byte position of 1/32 of the images (those <= 2 KiB), class img/every_position_flipped",
    quick=dict(checks=6000, shards=4, timeout=900),
    thorough=dict(checks=30000, shards=16, timeout=3000),
)

PROPS["C04"] = dict(
    pkg="c04",
    level="exploration",
    technique="property-based testing (rapid): structural DER mutation of valid signatures, differential against a from-the-RFC verifier (soundness direction); native fuzzing (thorough)",
    level_text=("Valid signatures (library-made: data/SPC/arbitrary OID, bare SignedData; harness-made in the style of openssl smime/cms: sorted and unsorted attributes, "
                "attached and detached, with and without certificates and S/MIME capabilities; sbsign/sbvarsign fixtures) are mutated by 30 classes of edits on a TLV tree "
                "with correct length re-encoding (attribute swap/remove/duplicate, content edit/replace/remove/add, content-type OIDs, certificates, signer identity, "
                "messageDigest rewrite, signature flip, re-signing with another key, algorithm identifiers, second SignerInfo, outer ContentInfo strip/add, raw and per-leaf byte flips) "
                "and verified against the signer certificate, an unrelated one and one with the same issuer+serial on another key, through pkcs7.Verify, EFIVariableAuthentication2.Verify "
                "and the Authenticode wrapper. Oracle: library success implies acceptance by the reference predicate (weakest reading of the statement). "
                "Thorough: every byte of 1/50 of the blobs changed, plus coverage-guided native fuzzing with the same oracle."),
    level_note=("Trusts ref/cms + ref/der (no encoding/asn1, no cryptobyte) and crypto/rsa; the reference is cross-checked per run against go.mozilla.org/pkcs7 on honest and tampered samples and must accept the sbsign fixtures. "
                "Only the 'succeeds only if' direction is judged here; completeness is C05/C16/C03."),
    rule=("case = (blob derived from a valid signature by 0..2 mutations, verifying certificate, role). Every (blob, certificate) verdict is one evaluation. "
          "Non-trivial = mutated blob that the library parses and in which a SignerInfo names the verifying certificate (the verdict then depends on the cryptographic and binding checks); distinct by SHA-256 of (blob, certificate)."),
    assumptions=["ref/cms.Accepts is the weakest predicate the C04 statement allows", "crypto/rsa, crypto/sha256, crypto/x509 certificate parsing"],
    quick=dict(checks=9000, shards=4, timeout=900),
    thorough=dict(checks=30000, shards=16, timeout=3000),
    fuzz=[("FuzzC04", 120)],
)

PROPS["C05"] = dict(
    pkg="c05",
    level="exploration",
    technique="property-based testing (rapid): differential against three independent verifiers (stdlib-based strict checker, go.mozilla.org/pkcs7, openssl CLI) + own-parser round-trip",
    level_text=("For generated (content 0..64 KiB, content type data / SpcIndirectDataContent / arbitrary OIDs with up to 12 arcs and 31-bit arcs, RSA 2048/3072/4096 pool keys, "
                "certificates with 1..4 RDN issuers incl. multi-valued and 200-byte names, serials of 1..20 bytes with high-bit and leading-zero patterns) the bytes returned by "
                "SignPKCS7 / SignAuthenticode must be strict canonical DER with exactly the stated shape (SHA-256, issuer+serial, embedded certificate, contentType and messageDigest "
                "attributes in DER SET OF order, PKCS#1 v1.5 signature over the DER SET), must verify under go.mozilla.org/pkcs7 and (sampled 1 in 10, thorough 1 in 3) the openssl CLI, "
                "must be rejected by them for content with one byte changed, and the library's own parser must recover content type, content, certificate and attributes and verify."),
    level_note=("Trusts ref/der + the strict checker in props/c05, crypto/rsa, go.mozilla.org/pkcs7 (module cache) and, when present, openssl 3.x (absence is recorded in evidence, the check still decides). "
                "For non-data content types the content is a concatenation of DER elements (the precondition the only caller, SignAuthenticode, satisfies). OID arcs are kept below 2^31 because Go's encoding/asn1 (used by the mozilla oracle) cannot read larger ones."),
    rule=("case = (pool key, generated certificate, content type OID, content). Non-trivial = content >= 1 byte and (serial with high bit or >= 16 bytes, or multi-RDN issuer, or non-data OID, or key size != 2048); "
          "distinct by SHA-256 of (content, certificate, OID)."),
    assumptions=["go.mozilla.org/pkcs7 and openssl are correct verifiers", "certificate validity window covers the signing time (mozilla checks it)"],
    quick=dict(checks=700, shards=4, timeout=900, shrinktime=15),
    thorough=dict(checks=5000, shards=16, timeout=3000, shrinktime=30),
)

PROPS["C03"] = dict(
    pkg="c03",
    level="exploration",
    technique="property-based testing (rapid) over signing histories: independent reader of the output (PE layout, certificate table, CMS) + reference firmware-style verification + round-trip through Parse",
    level_text=("Signing histories (1..4 signatures by 2048/3072/4096-bit keys, serialise/re-parse between steps chosen at random) over generated well-formed images "
                "(all C01 shapes without a table, every length mod 8) and over the repository images incl. the sbsign-signed ones. After every signature an independent reader checks: "
                "every original byte kept except the directory entry, zero padding to 8, directory entry = (8-aligned table offset, size) spanning exactly to end of file, table splits into "
                "revision 0x0200 / type 0x0002 entries with dwLength = 8 + blob and zero padding, earlier entries untouched, embedded SpcIndirectData digest == specification digest of the output == digest before signing; "
                "the live object and Parse(Bytes()) report the same digest, list all entries, verify against every signer so far (and the third-party signer of pre-signed inputs) "
                "and not against a certificate that never signed; the reference verifier (C04 predicate + digest binding) accepts every signer."),
    level_note="Trusts ref/pehash, ref/acode, ref/cms (each validated against sbsign-produced fixtures per run). Certificate variety is C05's subject; fixed identities (one per pool key) are used here.",
    rule=("case = (image, 1..4 signing steps with identity and re-parse flag, outsider identity). Non-trivial = history with >=2 signatures, or input length mod 8 != 0, or pre-signed input, or a re-parse between signatures; "
          "distinct by SHA-256 of (image, steps)."),
    assumptions=["ref/pehash, ref/acode, ref/cms"],
    quick=dict(checks=500, shards=4, timeout=900, shrinktime=15),
    thorough=dict(checks=4000, shards=16, timeout=3000, shrinktime=30),
)

PROPS["C02"] = dict(
    pkg="c02",
    level="exploration",
    technique="property-based testing (rapid): adversarial derivation of signed images (byte flips, transplants, DER edits inside the blob, forged re-signing), differential against a reference firmware-style verifier",
    level_text=("Validly signed images (library-signed generated images with 1..2 signatures, sbsign-signed fixtures) are turned into adversarial (image, certificate) pairs: one covered byte changed "
                "(region boundaries and uniform), any byte changed, the whole table transplanted onto another image, the embedded SpcIndirectData digest rewritten to the tampered image's digest with and without "
                "also rewriting messageDigest, all 30 structural mutation classes of C04 applied to a table entry, and a consistent forgery re-signed with another key under the victim's issuer+serial; "
                "verified against the signer, an unrelated certificate, a same-issuer+serial certificate on another key and the forger's twin. Oracle: Verify == (true, nil) implies the reference predicate "
                "(some entry is accepted by the C04 reference for that certificate AND carries the specification digest of exactly these bytes)."),
    level_note="Trusts ref/acode, ref/cms, ref/pehash (validated per run on the sbsign fixtures incl. negative variants). Completeness on honest pairs is C03; it is only counted here (class honest_pair_rejected_by_library must stay 0 for the run to be meaningful).",
    rule=("case = (derived image, verifying certificate). Non-trivial = derived (not the unmodified) pair in which some table entry's SignerInfo names the verifying certificate, so the verdict depends on digest binding and RSA check; "
          "distinct by SHA-256 of (image, certificate)."),
    assumptions=["ref/acode.VerifyImage states the C02 predicate"],
    quick=dict(checks=3000, shards=4, timeout=900, shrinktime=15),
    thorough=dict(checks=30000, shards=16, timeout=3000, shrinktime=30),
)

PROPS["C06"] = dict(
    pkg="c06",
    level="exploration",
    technique="property-based testing (rapid): independent decoding of the produced byte string, differential verification of the detached signature over a from-the-spec rebuilt buffer (reference verifier, go.mozilla.org/pkcs7, openssl), metamorphic buffer perturbations, generated time-zone configurations",
    level_text=("For generated (variable name, vendor GUID, attribute mask incl. APPEND_WRITE, payload: empty / signature lists / raw bytes, pool key, certificate, process time zone UTC-12h..+14h in 15-minute steps) "
                "the bytes of the Marshallable returned by SignEFIVariable are decoded by the reference descriptor codec: 16-byte timestamp that, read as UTC, lies in the window captured around the call with pad/nanosecond/timezone/daylight zero; "
                "dwLength == 24 + signature length, revision 0x0200, type 0x0EF1, PKCS7 GUID in wire layout; signature exactly one strict-DER bare SignedData, detached, SHA-256, accepted by the reference verifier for the given certificate, whose "
                "messageDigest equals SHA-256 of name(UTF-16LE, unterminated) || GUID(wire) || attributes(LE32) || timestamp || payload; go.mozilla.org/pkcs7 (and, sampled, openssl smime -verify -content) accept it over that buffer and "
                "reject it over six perturbed buffers; remaining bytes equal the payload; the returned struct encodes to the same descriptor."),
    level_note=("Trusts ref/authvar, ref/cms, go.mozilla.org/pkcs7, openssl when present; the buffer layout is validated per run against the sbvarsign-made PK.auth and db.auth fixtures. "
                "The time zone is configured by assigning time.Local (what TZ= does at start-up); acceptance by real firmware is out of reach."),
    rule=("case = (name, GUID, attributes, payload, key, certificate, zone offset). Non-trivial = zone offset != 0, or APPEND_WRITE set, or non-empty payload; distinct by SHA-256 of all inputs."),
    assumptions=["wall clock advances monotonically during a call (window check)", "ASCII variable names (the statement's domain)"],
    quick=dict(checks=600, shards=4, timeout=900, shrinktime=15),
    thorough=dict(checks=5000, shards=16, timeout=3000, shrinktime=30),
)

PROPS["C16"] = dict(
    pkg="c16",
    level="exploration",
    technique="property-based testing (rapid) over producer configurations: signatures made by the openssl CLI at check time + committed OpenSSL corpus + cross-checked emulation + repository fixtures; differential against the reference verifier",
    level_text=("Signatures are produced by `openssl smime -sign` / `openssl cms -sign` crossed with -nodetach, -nosmimecap, -nocerts, -cades, receipt request and -noattr over generated contents (0..64 KiB), pool keys and "
                "generated certificates when the binary is present; the whole committed corpus of 66 OpenSSL-made signatures and the sbsign/sbvarsign artefacts are always run; a harness emulation of the same producers "
                "(cross-checked against the binary's attribute order) varies signing times 1950..2049 and sizes. Oracle: ParsePKCS7 succeeds; with signed attributes Verify(signer) == (true, nil) and Verify is not true for an "
                "unrelated certificate, one with the same issuer+serial on another key and one on the same key with another serial; Attributes.Marshal() of the parsed values equals the attribute bytes that were signed; "
                "without signed attributes parsing succeeds and Verify ends negative or with an error."),
    level_note=("Only OpenSSL 3.5.6 exists on this image (recorded in evidence; without it the committed corpus, the emulation and the fixtures still decide). sbsign/sbvarsign are represented by the repository fixtures only. "
                "-keyid (subjectKeyIdentifier signer ids) is outside the statement and not generated."),
    rule=("case = (third-party signature, content, signer certificate). Non-trivial = blob with >= 4 signed attributes, or attached content, or no embedded certificates; distinct by SHA-256 of the blob."),
    assumptions=["openssl CLI output is a correct third-party signature (every sample is also accepted by the reference verifier before it is used)"],
    quick=dict(checks=300, shards=4, timeout=900, shrinktime=15),
    thorough=dict(checks=3000, shards=16, timeout=3000, shrinktime=30),
)

PROPS["C11"] = dict(
    pkg="c11",
    level="exploration",
    technique="property-based testing (rapid) with a recording afero.Fs at the dependency boundary: the operation trace is compared with the efivarfs contract",
    level_text=("For generated variable definitions (all predefined ones and arbitrary name/GUID/mask), values (databases, signed-update-like blobs, raw bytes 0..4 KiB), stored masks (equal, superset, subset, disjoint, random), "
                "file states (present, absent, 0..3 bytes), efivars directories and both APIs (EFIFS via SetFS; legacy attributes.WriteEfivars*/ReadEfivars* via fs.SetFS) a recording file system logs every Fs and File call. "
                "Write: every call names <dir>/<Name>-<lower-case GUID>, exactly one OpenFile with write-only access, O_CREATE, no O_EXCL, O_APPEND iff APPEND_WRITE, exactly one Write whose buffer is LE32(mask) || encoded value, no other mutating call. "
                "Read: value = bytes after the first four, attributes = stored mask; ErrIncorrectAttributes and no decoder call when the stored mask lacks a required attribute; errors for absent and short files; no mutating call."),
    level_note=("Trusts recfs (recording wrapper over afero.MemMapFs). O_TRUNC is neither required nor forbidden (the statement does not mention it). The CheckImmutable()/UnsetImmutable() configuration and the legacy API's immutable-flag probe act on the host "
                "file system through ioctl and cannot be observed at the afero boundary; generated directories live under a root that does not exist on the host."),
    rule=("case = (API, write|read, directory, definition, value, stored mask, file state). Non-trivial = write with APPEND_WRITE, or read whose stored mask lacks a required attribute, or legacy API, or non-default directory; distinct by SHA-256 of the case."),
    assumptions=["afero.MemMapFs behaves like a file system for open/read/write/stat"],
    quick=dict(checks=20000, shards=2, timeout=600),
    thorough=dict(checks=200000, shards=16, timeout=3000),
)

PROPS["C12"] = dict(
    pkg="c12",
    level="exploration",
    technique="stateful property-based testing (rapid): generated write/signed-update/read histories against a register model (map variable -> last value), every variable read back after every step",
    level_text=("Histories of 1..25 (thorough 60) WriteVar / WriteSignedUpdate / read-all operations over PK, KEK, db, dbx and three ordinary variables (one sharing the name 'db' under another GUID), "
                "starting from an empty or pre-populated testfs store; values are databases that grow, shrink, become empty and repeat, and raw byte strings of 0..600 bytes. "
                "After every step every variable is read through GetVar (raw bytes) and, for decodable values, through Getdb/GetKEK/GetPK/Getdbx and must equal the model's last written value "
                "(for signed updates the payload without the descriptor); never-written variables must be absent."),
    level_note=("The model is a map; no reference implementation involved. Masks without APPEND_WRITE (append is firmware-side merging, not register semantics). Plain values given to secure-boot variables never look like a "
                "revision-2.0 WIN_CERTIFICATE header, because the store by design treats such bytes as a signed update."),
    rule=("case = (pre-populated variables, operation list). Non-trivial = history in which some variable is written with a strictly shorter value after a longer one, or with a signed update after a plain write (or vice versa), "
          "or two variables are written alternately; distinct by SHA-256 of the case."),
    assumptions=["reads go through the same Efivarfs facade a test author would use"],
    quick=dict(checks=700, shards=4, timeout=900, shrinktime=15),
    thorough=dict(checks=6000, shards=16, timeout=3000, shrinktime=30),
)

PROPS["C18"] = dict(
    pkg="c18",
    level="exploration",
    technique="exhaustive enumeration of all 65536 boot numbers + property-based testing (rapid) of load options against an independent encoder; structural comparison of the text rendering",
    level_text=("Every run enumerates all 65536 boot numbers (1024 stores of 64 entries, every Boot#### variable present, named as firmware names it) and requires GetBootOrder to return exactly those names and "
                "GetBootEntry to resolve each; 1 store in 16 also goes through the legacy efi package. Generated cases: BootOrder of 0..64 entries (hex-letter numbers favoured), some variables absent, load options with arbitrary attributes, "
                "Unicode descriptions, 1..6 nodes of PCI / ACPI / hard drive (MBR and GPT) / file path / firmware file / USB with arbitrary field values, optional data; decoded attributes, FilePathListLength, description and every node field "
                "must equal the encoded ones; hard-drive nodes must render as HD(part,MBR|GPT,signature,0xstart,0xsize) with the GUID read in EFI layout / the 32-bit MBR signature, compared as values; file-path nodes as File(path)."),
    level_note=("Trusts ref/devpath (validated per run: it reproduces byte for byte the device path nodes of load options captured from real firmware, and the known text form of Boot0001's partition GUID). "
                "Partition number 0 (no defined short form) is excluded by construction and counted. Hard-drive nodes are generated with consistent partition format and signature type."),
    rule=("evaluations = boot numbers enumerated + generated cases. Non-trivial = boot number containing a hex letter (a-f), or load option with >= 3 nodes; distinct by the boot number resp. SHA-256 of the case."),
    assumptions=["testfs in-memory store as the variable backend"],
    exhaustive_note="all 65536 boot numbers in every run of both tiers (class exhaustive_boot_numbers must total 65536)",
    arch386=True,
    quick=dict(checks=4000, shards=2, timeout=600),
    thorough=dict(checks=60000, shards=16, timeout=3000),
)

PROPS["C13"] = dict(
    pkg="c13",
    arch386=True,  # sizes taken from untrusted headers meet a 32-bit int in the extra GOARCH=386 shard
    level="exploration",
    technique="property-based testing (rapid) and native fuzzing through sandboxed worker processes: structure-aware hostile mutation of valid images and signatures, outcome classification (return / error / panic / exit / timeout / allocation)",
    level_text=("Inputs: valid images (generated, library-signed, sbsign fixtures) with every header field the statement names set to hostile constants (e_lfanew, NumberOfSections, SizeOfOptionalHeader, symbol table, magic, SizeOfHeaders, "
                "NumberOfRvaAndSizes, certificate directory address/size, per-section size/pointer/virtual size, each WIN_CERTIFICATE dwLength/revision/type), truncation at every structural boundary, overlapping sections, byte noise; valid images whose "
                "table entry is a hostile blob; signatures damaged structurally (30 C04 classes) and at DER level (truncation, hostile length octets, nesting up to 5000, tag changes, slices dropped/duplicated); random bytes up to 64 KiB. "
                "Each input is run in a persistent worker process through Parse + Signatures + Hash + Bytes + Open + Verify (images) resp. ParsePKCS7/ParseAuthenticode/descriptor Verify (blobs). "
                "Oracle: the worker answers with a value or an error; a recovered panic, a dead worker (log.Fatal / os.Exit / fatal error, call site from the log line), a reproduced timeout (4 s, re-run alone with 24 s) "
                "or more than 16 MiB + 256 x input bytes allocated is a violation unless its site matches a listed known finding. Thorough adds coverage-guided native fuzzing of the same entry points."),
    level_note=("Trusts the sandbox classifier (self-checked per run with a deliberate panic, log.Fatal, 64 MiB allocation, hang, value and error). 'Time proportional to the input' is decided as 'no reproducible timeout at several thousand times the typical latency' on inputs up to 3 MB with up to 150 000 elements per collection, "
                "not as a complexity bound. Known finding by allocation site: debug/pe.readRelocs (stdlib)."),
    rule=("case = (entry point, input bytes). Non-trivial = input on which the entry point got past its first validation step (the worker reports the deepest stage reached: Parse / ParsePKCS7 succeeded); distinct by SHA-256 of (entry, input)."),
    assumptions=["allocation is measured with runtime/metrics (/gc/heap/allocs:bytes and the /gc/heap/allocs-by-size histogram) around the request in the worker; bytes in large objects are a lower bound"],
    quick=dict(checks=6000, shards=4, timeout=1200, shrinktime=20),
    thorough=dict(checks=60000, shards=16, timeout=3400, shrinktime=60),
    fuzz=[("FuzzC13Image", 150), ("FuzzC13PKCS7", 150)],
)

PROPS["C14"] = dict(
    pkg="c14",
    arch386=True,  # (the extra 32-bit shard is built without the race detector, which GOARCH=386 does not have)
    level="exploration",
    technique="property-based testing (rapid) and native fuzzing through sandboxed worker processes (built with the race detector; one input in three decoded by three goroutines at once), one entry point per decoder; static list of termination call sites used as coverage target only",
    level_text=("One sandboxed entry point per decoder the statement names: signature database / list / data, authentication descriptor (reader and Unmarshal), WIN_CERTIFICATE (+UEFI_GUID), load option and device path incl. Format() of every node, "
                "UTF-16 strings (ParseUtf16Var, Efistring, ReadNullString), boot order and boot entry through the in-memory store, supported-signature list, attribute-prefixed variable file (FSWrapper and legacy), typed getters "
                "(Getdb/Getdbx/GetPK/GetKEK/GetSecureBoot/GetSetupMode/GetLoaderEntrySelected), PEM key and certificate, GUID text and bytes, and TestFS.WriteVar of small unsigned secure-boot values. Inputs are valid encodings from the reference encoders "
                "mutated by truncation at any point, 32-/16-bit fields overwritten with hostile constants, byte noise, trailing garbage, emptiness, and random bytes up to 64 KiB, plus fixed inputs for every shape that was a defect on the pinned tree. "
                "Oracle as C13 (value or error; no panic, process exit, reproduced timeout, or more than 16 MiB + 64 x input bytes in objects larger than 32 KiB, or more than 16 MiB + 8192 x input bytes allocated in total). Thorough adds native fuzzing of all entry points with one input."),
    level_note=("Trusts the sandbox classifier (self-checked per run). The static list of log.Fatal*/os.Exit/panic call sites (go/parser, non-cmd non-test packages; recorded in evidence under extra.static_termination_call_sites) is a coverage target: "
                "fuzzing shows reachability, it cannot show that the remaining sites (writers to a caller-supplied buffer, asntest helpers) are unreachable."),
    rule=("case = (entry point, input). Non-trivial = input of >= 4 bytes that is not the unmodified valid encoding; distinct by SHA-256 of (entry, input)."),
    assumptions=["allocation measured with runtime/metrics in the worker"],
    race=True,
    quick=dict(checks=7000, shards=4, timeout=1200, shrinktime=20),
    thorough=dict(checks=150000, shards=16, timeout=3400, shrinktime=60),
    fuzz=[("FuzzC14", 180)],
)

PROPS["C15"] = dict(
    pkg="c15",
    level="fault_enumeration",
    technique="exhaustive fault enumeration over the dependency-call sequence of each operation (learned in a fault-free run through counting wrappers), with generated inputs (rapid)",
    level_text=("For each generated input (small well-formed image, signature database, secure-boot variable, identity) the dependency-call sequence of every operation is learned fault-free, then EVERY position k is failed in turn: "
                "crypto.Signer.Sign (SignPKCS7, SignAuthenticode, SignEFIVariable, PECOFFBinary.Sign, WriteSignedUpdate), the stream reader of SignAuthenticode, every ReadAt of the image reader during Parse, Hash, Sign and Verify "
                "(kinds: error once, short count + io.ErrUnexpectedEOF once, error from k on), and every Fs/File call (OpenFile/Open, Stat, Read, Write, Close; kinds: error, short write, short read) of WriteVar, WriteSignedUpdate, "
                "GetVar, the typed getters and the legacy read/write functions. Oracle: the operation returns a non-nil error (Hash: no digest), never a success value; a failed Sign leaves Signatures() and Bytes() of the image object unchanged and a later Sign works; "
                "a signed update with a failing signer touches the file system not at all; a value returned together with an error is never wrong. The process surviving is observed by the check's case journal (a dying test process is replayed and reported)."),
    level_note=("Weakest reading taken for one corner only: a Close failure AFTER a fully successful read is recorded (class close_failure_after_successful_read_not_reported) but not raised, because value and error-freeness of the read are not in doubt (os.ReadFile behaves the same). "
                "A spurious io.EOF from the image reader is not injected (it is the regular end-of-data signal, not a failure)."),
    rule=("evaluations = number of faulty runs (operation, position k, fault kind) over all generated inputs. Non-trivial = fault position k > 1, i.e. the fault arrives after some dependency calls succeeded; "
          "distinct by SHA-256 of (operation, fault kind, k, input)."),
    assumptions=["recfs / failSigner / faultReaderAt inject what they say (self-checked per run)"],
    exhaustive_note="per generated input: every position of every operation's dependency-call sequence (counts of the last case under extra.dependency_calls_last_case/*)",
    quick=dict(checks=300, shards=4, timeout=1200, shrinktime=20),
    thorough=dict(checks=3000, shards=16, timeout=3400, shrinktime=60),
)

PROPS["C19"] = dict(
    pkg="c19",
    race=True,
    level="exploration",
    technique="property-based testing (rapid) under the Go race detector: generated sequential and concurrent call lists on one shared object, metamorphic comparison with a freshly constructed twin object",
    level_text=("One shared object per case (parsed image with 1..3 signatures; decoded database; the Marshallable returned by SignEFIVariable; a decoded descriptor). A drawn list of up to 30 read-only operations "
                "(Hash, Bytes, Open+read-all, Signatures, Verify against each signer and an outsider / Bytes, Marshal, list Bytes, SigDataExists, BytesExists, Exists / Marshal, Bytes / Marshal, Verify) is first applied sequentially, "
                "then 2..16 goroutines, each with its own drawn list, are released by a barrier on the same object. Every result must equal the result of the same call on a twin object built from the same bytes and never shared; "
                "afterwards the object must still encode/hash as before. The test binary is built with -race and GORACE=halt_on_error=1: the first reported data race ends the process and the journaled case becomes the replay file."),
    level_note=("The harness does not own the Go scheduler: data races are found whenever both accesses execute (the detector is interleaving-independent), but a logical ordering bug without a data race would need a particular schedule and is only sampled. "
                "A race replay re-runs the case under -race; a schedule cannot be pinned."),
    rule=("case = (object bytes, operation lists per goroutine). Non-trivial = a list in which an operation is repeated after a different one, or >= 2 goroutines; distinct by SHA-256 of the case."),
    assumptions=["Go race detector (happens-before based) reports every pair of conflicting accesses that were executed"],
    quick=dict(checks=400, shards=4, timeout=1200, shrinktime=20),
    thorough=dict(checks=4000, shards=16, timeout=3400, shrinktime=60),
)

NOT_APPLICABLE = _NA()
