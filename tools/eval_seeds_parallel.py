#!/usr/bin/env python3
"""Evaluates all (or the named) seeded changes on N parallel lanes (own checkout of the library per lane).
usage: eval_seeds_parallel.py [--lanes N] [names...]"""
import glob, json, os, subprocess, sys, threading
V = "/verif"
EXTRA = {"C11-A": "C11,C15", "C02-B": "C02,C01", "C03-B": "C03,C02", "C06-B": "C06,C05", "C15-B": "C15,C11", "C17-B": "C17,C19",
         "C13-F": "C13,C03", "C19-E": "C19,C15", "C03-F": "C03,C05", "C02-D": "C02,C04", "C07-D": "C07,C09", "C03-D": "C03,C05",
         "C02-G": "C02,C01", "C02-H": "C02,C04", "C13-G": "C13,C01", "C16-G": "C16,C04", "C04-H": "C04,C16", "C14-H": "C14,C11", "C11-H": "C11,C14", "C05-H": "C05,C04",
         "C04-I": "C04,C10", "C05-I": "C05,C19,C16", "C05-J": "C05,C15", "C06-I": "C06,C15", "C07-I": "C07,C09", "C02-J": "C02,C04", "C03-J": "C03,C04", "C19-J": "C19,C15", "C13-J": "C13,C01",
         "C15-K": "C15,C01", "C15-L": "C15,C08", "C19-L": "C19,C15", "C02-K": "C02,C01", "C02-L": "C02,C04", "C17-L": "C17,C18", "C14-L": "C14,C19",
         "C02-M": "C02,C01", "C02-N": "C02,C01", "C12-M": "C12,C08", "C03-N": "C03,C01", "C15-M": "C15,C05",
         "C02-P": "C02,C04", "C12-O": "C12,C19", "C12-P": "C12,C07", "C19-O": "C19,C07", "C07-P": "C07,C09", "C17-O": "C17,C07", "C06-P": "C06,C12", "C05-P": "C05,C04", "C15-P": "C15,C12",
         "C16-Q": "C16,C04", "C04-Q": "C04,C16", "C16-R": "C16,C04", "C04-R": "C04,C16", "C13-R": "C13,C19", "C19-R": "C19,C02", "C05-Q": "C05,C03", "C05-R": "C05,C04",
         "C03-Q": "C03,C04", "C03-R": "C03,C01", "C12-Q": "C12,C11", "C11-R": "C11,C12", "C18-R": "C18,C14", "C08-Q": "C08,C07", "C08-R": "C08,C07", "C07-Q": "C07,C08", "C07-R": "C07,C08",
         "C17-R": "C17,C18", "C06-R": "C06,C10", "C02-Q": "C02,C01",
         "C01-U": "C01,C15", "C02-U": "C02,C15", "C03-U": "C03,C15", "C19-U": "C19,C15", "C05-U": "C05,C15", "C05-V": "C05,C03", "C07-U": "C07,C09", "C08-V": "C08,C07", "C17-U": "C17,C07", "C09-U": "C09,C07", "C18-U": "C18,C19",
         "C03-T": "C03,C01", "C11-S": "C11,C14", "C14-T": "C14,C17", "C17-S": "C17,C18", "C17-T": "C17,C14", "C18-T": "C18,C17", "C15-T": "C15,C01", "C01-T": "C01,C15", "C13-S": "C13,C16", "C06-T": "C06,C19", "C19-T": "C19,C06", "C02-S": "C02,C04", "C02-T": "C02,C01", "C04-S": "C04,C03", "C07-S": "C07,C09", "C09-T": "C09,C07", "C07-T": "C07,C08", "C08-S": "C08,C07", "C08-T": "C08,C07", "C16-S": "C16,C13", "C05-T": "C05,C04"}
args = sys.argv[1:]
lanes = 4
if "--lanes" in args:
    i = args.index("--lanes"); lanes = int(args[i + 1]); del args[i:i + 2]
names = args or sorted(os.path.basename(d.rstrip("/")) for d in glob.glob(V + "/seeded/*/"))
lock = threading.Lock()
def work(lane):
    # make sure the lane checkout is at /repo's HEAD
    repo = "/tmp/lane_%d/repo" % lane
    if os.path.isdir(repo):
        head = subprocess.run(["git", "-C", "/repo", "rev-parse", "HEAD"], stdout=subprocess.PIPE, text=True).stdout.strip()
        subprocess.run(["git", "-C", repo, "checkout", "-q", "--detach", head])
        subprocess.run("git -C %s checkout -q -- . && git -C %s clean -qfd" % (repo, repo), shell=True)
    while True:
        with lock:
            if not names:
                return
            n = names.pop(0)
        d = "%s/seeded/%s" % (V, n)
        cmd = ["python3", V + "/tools/eval_seed.py", d, "--lane", str(lane)]
        if n in EXTRA:
            cmd += ["--checks", EXTRA[n]]
        out = subprocess.run(cmd, stdout=subprocess.PIPE, stderr=subprocess.STDOUT, text=True).stdout
        open(d + ("/result.%s.json" % os.environ["EVAL_ALT"] if os.environ.get("EVAL_ALT") else "/result.json"), "w").write(out)
        try:
            r = json.loads(out)
            cs = {k: ("caught" if v["rc"] == 1 else ("missed" if v["rc"] == 0 else "rc=%s" % v["rc"])) for k, v in r.get("checks", {}).items()}
            ok = r.get("existing_suite_with_change") == "pass" and r.get("demo_on_unchanged_tree") == "pass" and str(r.get("demo_with_change", "")).startswith("fails")
            print(n, "confirmed" if ok else "NOT-CONFIRMED", cs, flush=True)
        except Exception as e:
            print(n, "ERROR", str(e), out[-200:], flush=True)
ts = [threading.Thread(target=work, args=(k + 1,)) for k in range(lanes)]
[t.start() for t in ts]
[t.join() for t in ts]
