#!/bin/sh
# usage: collect_regress.sh <commit> <property>
# Reverts the fix, runs the quick check, and keeps the first shrunk violation as a committed regression case.
out=$(/verif/tools/revert_and_check.sh "$1" "$2" 2>&1)
f=$(echo "$out" | sed -n 's/^VIOLATION property=[A-Z0-9]* replay=\(.*\)$/\1/p' | head -1)
if [ -n "$f" ] && [ -f "$f" ]; then
  mkdir -p /verif/replays/$2
  cp "$f" /verif/replays/$2/regress-$1.json
  echo "$2 $1 -> replays/$2/regress-$1.json"
else
  echo "$2 $1: no violation file ($(echo "$out" | tail -2 | tr '\n' ' '))"
fi
