#!/usr/bin/env python3
"""Lists the exported functions and methods of the library packages that no harness source refers to
(by selector name). Used for DESIGN.md section 12: every property is checked through every exported route
its wording covers, and what is left out is left out for a stated reason."""
import re, os
funcs = set()
for root in ['authenticode', 'pkcs7', 'efi', 'efivarfs']:
    for dp, dn, fn in os.walk('/repo/' + root):
        for f in fn:
            if f.endswith('.go') and not f.endswith('_test.go'):
                for line in open(os.path.join(dp, f)):
                    m = re.match(r'func (\((\w+) \*?(\w+)\) )?([A-Z]\w*)\(', line)
                    if m:
                        recv = m.group(3) or ''
                        if recv and not recv[0].isupper():
                            continue
                        funcs.add((dp[len('/repo/'):], recv, m.group(4)))
harness = ''
for dp, dn, fn in os.walk('/verif/harness'):
    for f in fn:
        if f.endswith('.go'):
            harness += open(os.path.join(dp, f)).read()
missing = [x for x in sorted(funcs) if not re.search(r'\.' + x[2] + r'\b', harness)]
for pkg, recv, name in missing:
    print('%s: %s%s' % (pkg, (recv + '.') if recv else '', name))
print('%d of %d exported functions are not referred to by the harness' % (len(missing), len(funcs)))
