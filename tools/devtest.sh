#!/bin/sh
# runs harness tests against a clean scratch worktree of /repo (/tmp/repo_dev) so that /repo's working tree can be in use
cd /verif/harness && GOFLAGS="-mod=mod -modfile=go.dev.mod" GOPROXY=off GOSUMDB=off GOTOOLCHAIN=local VERIF_REPO=/tmp/repo_dev VERIF_ROOT=/verif VERIF_OPENSSL=/root/miniconda/bin/openssl go "$@"
