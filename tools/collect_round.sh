#!/bin/bash
# Collects a finished round of independently written changes: /tmp/seed<N>/CNN/_seed/{A,B} -> seeded/CNN-<L1>, CNN-<L2>
# (paths inside meta.json rewritten from the agent's worktree to /repo). usage: collect_round.sh <N> <L1> <L2>
N=$1; L1=$2; L2=$3
for d in /tmp/seed$N/C??; do
  id=$(basename $d)
  for pair in A:$L1 B:$L2; do
    src=$d/_seed/${pair%%:*}; dst=/verif/seeded/$id-${pair##*:}
    [ -f $src/patch.diff ] && [ -f $src/meta.json ] || { echo "missing $src"; continue; }
    [ -e $dst ] && { echo "exists $dst"; continue; }
    mkdir -p $dst && cp $src/* $dst/ 2>/dev/null
    sed -i "s#/tmp/seed$N/$id#/repo#g" $dst/meta.json
    echo "collected $dst"
  done
done
