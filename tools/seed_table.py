#!/usr/bin/env python3
"""Prints the markdown table of seeded changes (seeded/*/meta.json + result.json) for DESIGN.md section 11."""
import json, glob, os
rows = []
for d in sorted(glob.glob('/verif/seeded/*/')):
    n = os.path.basename(d.rstrip('/'))
    try:
        m = json.load(open(d + 'meta.json'))
        r = json.load(open(d + 'result.json'))
    except Exception as e:
        rows.append((n, '?', '?', 'no result: %s' % e)); continue
    ok = r.get('existing_suite_with_change') == 'pass' and r.get('demo_on_unchanged_tree') == 'pass' and str(r.get('demo_with_change', '')).startswith('fails')
    checks = ', '.join('%s: %s' % (k, 'caught' if v['rc'] == 1 else ('missed' if v['rc'] == 0 else 'rc=%s' % v['rc'])) for k, v in r.get('checks', {}).items())
    summ = m.get('summary', '').replace('\n', ' ').replace('|', '/')
    needs = m.get('needs', '').replace('\n', ' ').replace('|', '/')
    if len(summ) > 230: summ = summ[:227] + '...'
    if len(needs) > 200: needs = needs[:197] + '...'
    rows.append((n, summ, needs, ('confirmed; ' if ok else 'NOT CONFIRMED; ') + checks))
print('| seed | change | needs | result |')
print('|---|---|---|---|')
for r in rows:
    print('| %s | %s | %s | %s |' % r)
