#!/usr/bin/env python3
"""Evaluates one seeded change against /repo and the checks.

usage: eval_seed.py <dir with patch.diff, meta.json, demo file> [--checks C01,C02,...] [--tier quick]

Steps (each recorded in the printed JSON):
  1. /repo must be clean; the demo must PASS on the unchanged tree
  2. git apply patch.diff; go build ./...; the existing suite must pass
  3. the demo must FAIL with the change
  4. the listed checks (default: the property named in meta.json) are run: VIOLATION expected
  5. the tree is restored (git checkout -- . ; git clean -fd for the demo copy)
"""
import json, os, subprocess, sys, shutil

ENV = dict(os.environ, GOFLAGS="-mod=mod", GOPROXY="off", GOSUMDB="off", GOTOOLCHAIN="local")
REPO = "/repo"
LANE = ""
if "--lane" in sys.argv:
    LANE = sys.argv[sys.argv.index("--lane") + 1]
    REPO = "/tmp/lane_%s/repo" % LANE
    ENV["VERIF_LANE"] = LANE
    if not os.path.isdir(REPO):
        os.makedirs("/tmp/lane_%s" % LANE, exist_ok=True)
        subprocess.run(["git", "-C", "/repo", "worktree", "add", "-q", "--detach", REPO, "HEAD"], check=True)
SUITE = "go build ./... && go test -vet=off -count=1 ./authenticode/ ./pkcs7/ ./efi/... ./efivarfs/..."

def sh(cmd, cwd=REPO, timeout=1800):
    p = subprocess.run(cmd, shell=True, cwd=cwd, env=ENV, stdout=subprocess.PIPE, stderr=subprocess.STDOUT, text=True, timeout=timeout)
    return p.returncode, p.stdout

def clean():
    sh("git checkout -q -- . && git clean -qfd")

def main():
    d = os.path.abspath(sys.argv[1])
    meta = json.load(open(os.path.join(d, "meta.json")))
    checks = [meta["property"]]
    tier = "quick"
    a = sys.argv[2:]
    for i, x in enumerate(a):
        if x == "--checks":
            checks = a[i + 1].split(",")
        if x == "--tier":
            tier = a[i + 1]
    res = {"dir": d, "property": meta["property"]}
    rc, out = sh("git status --porcelain")
    if out.strip():
        print("repo not clean:", out); return 2
    demo_src = None
    for n in ("demo_test.go", "demo_main.go"):
        if os.path.exists(os.path.join(d, n)):
            demo_src = os.path.join(d, n)
    demo_dst = os.path.join(REPO, meta["demo_path"].replace("/repo/", ""))
    if os.path.isdir(demo_dst) or demo_dst.endswith("/"):
        demo_dst = os.path.join(demo_dst, os.path.basename(demo_src))
    def run_demo():
        os.makedirs(os.path.dirname(demo_dst), exist_ok=True)
        shutil.copyfile(demo_src, demo_dst)
        cmd = meta["demo_cmd"].replace("/tmp/seed/%s" % meta["property"], REPO).replace("/repo", REPO)
        rc, out = sh(cmd, timeout=900)
        os.remove(demo_dst)
        return rc, out
    # EVAL_FAST=1: a change that an earlier evaluation confirmed (demonstration passes on the unchanged tree, fails with
    # the change, existing suite passes with it) is not confirmed again; only the checks are re-run
    prev = None
    if os.environ.get("EVAL_FAST"):
        try:
            prev = json.load(open(os.path.join(d, "result.json")))
            if not (prev.get("demo_on_unchanged_tree") == "pass" and prev.get("existing_suite_with_change") == "pass" and str(prev.get("demo_with_change", "")).startswith("fails")):
                prev = None
        except Exception:
            prev = None
    try:
        if prev:
            for k in ("demo_on_unchanged_tree", "existing_suite_with_change", "demo_with_change"):
                res[k] = prev[k]
            res["confirmation"] = "carried over from an earlier evaluation of the same patch"
            rc, out = sh("git apply %s" % os.path.join(d, "patch.diff"))
            if rc != 0:
                res["apply"] = "FAILED: " + out[-300:]; print(json.dumps(res, indent=1)); return 1
        else:
            rc, out = run_demo()
            res["demo_on_unchanged_tree"] = "pass" if rc == 0 else "FAIL: " + out[-400:]
            clean()
            rc, out = sh("git apply %s" % os.path.join(d, "patch.diff"))
            if rc != 0:
                res["apply"] = "FAILED: " + out[-300:]; print(json.dumps(res, indent=1)); return 1
            rc, out = sh(SUITE)
            res["existing_suite_with_change"] = "pass" if rc == 0 else "FAIL: " + out[-600:]
            rc, out = run_demo()
            res["demo_with_change"] = "fails (as intended)" if rc != 0 else "PASSES (change not demonstrated)"
        res["checks"] = {}
        for c in checks:
            rc, out = sh("./check %s --tier %s" % (c, tier), cwd="/verif", timeout=7200)
            lines = [l for l in out.splitlines() if l.startswith(("VIOLATION", "OK ", "INCONCLUSIVE", "  "))]
            res["checks"][c] = {"rc": rc, "out": lines[:3]}
    finally:
        clean()
    rc, out = sh("git status --porcelain")
    res["repo_clean_after"] = not out.strip()
    print(json.dumps(res, indent=1))
    return 0

sys.exit(main())
