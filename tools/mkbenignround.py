#!/usr/bin/env python3
"""Prepares the 'benign changes' round: one scratch worktree of /repo per property under /tmp/benign/CNN and a
prompt file asking for changes that KEEP the property true (to look for false alarms of the checks)."""
import json, os, subprocess
root = "/tmp/benign"
os.makedirs(root, exist_ok=True)
tmpl = open("/verif/tools/benign_prompt.tmpl").read()
for line in open("/verif/properties.jsonl"):
    p = json.loads(line)
    pid = p["id"]
    wt = "%s/%s" % (root, pid)
    subprocess.run(["git", "-C", "/repo", "worktree", "remove", "--force", wt], stderr=subprocess.DEVNULL)
    subprocess.run(["git", "-C", "/repo", "worktree", "add", "-q", "--detach", wt, "HEAD"], check=True)
    prop = "%s - %s\n\nStatement: %s\n\nQuantified over: %s\n" % (pid, p["title"], p["statement"], p["quantifier"]["text"])
    open("%s/%s.prompt.txt" % (root, pid), "w").write(tmpl.replace("__ID__", pid).replace("__PROPERTY__", prop))
print("prepared", root)
