#!/bin/sh
# Runs every registered check (tier quick by default) and validates manifest + evidence.
tier="${1:-quick}"
cd /verif || exit 2
rc=0
for pid in $(./check --list); do
  ./check "$pid" --tier "$tier" | grep -E "^(OK|VIOLATION|INCONCLUSIVE|KNOWN-FINDING)" || rc=1
done
python3-vt tools/validate.py | grep -v " valid$" 
git -C /repo status --porcelain | head -3
exit $rc
