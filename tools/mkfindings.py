#!/usr/bin/env python3
"""Writes /verif/known_findings.json from the table below (edited by hand when a finding is added)."""
import json, os
VERIF = os.path.dirname(os.path.dirname(os.path.abspath(__file__)))

FIXED = [
 # property, commit, what failed
 ("C01", "0d79e58", "image whose headers end exactly at the certificate-table directory entry (0 sections, 5 data directories, no header padding): a zero-size part ended the hashed stream early, Hash() != specification digest"),
 ("C13", "aae615f", "certificate-table directory size larger than the bytes after the last section: authenticode.Parse panicked in bytes.Buffer.Truncate"),
 ("C15", "2a4997d", "crypto.Signer returning an error: pkcs7.SignPKCS7 (and SignAuthenticode, PECOFFBinary.Sign, SignEFIVariable, WriteSignedUpdate) called log.Fatal and terminated the process"),
 ("C13", "78215bf", "SignedData whose SignerInfo has no signed attributes (pkcs7/testdata/test.signed, openssl -noattr): nil dereference in (*signerinfo).verify"),
 ("C04", "2c8be55", "valid blob with its signed attributes permuted after signing: Verify re-encoded the attributes in a fixed order and still reported success"),
 ("C02", "9ae3377", "signed image with one covered byte changed and the 32 digest bytes inside SpcIndirectDataContent rewritten: messageDigest was never compared with the content, Verify reported success (same root cause for C04: encapsulated content replaced)"),
 ("C04", "9ae3377", "valid blob with its encapsulated content replaced: messageDigest was never compared with the content, Verify reported success"),
 ("C06", "311e3db", "process time zone other than UTC: the signed-update timestamp was local time with TimeZone field 0"),
 ("C14", "5652a39", "empty input to util.ParseUtf16Var / Efistring.Unmarshal / load option description: index -1 panic"),
 ("C17", "5652a39", "decoding an empty byte string (a string without terminator) panicked instead of returning an error"),
 ("C18", "f1d43d3", "BootOrder entry 0x001a: GetBootOrder returned Boot001a (legacy efi.GetBootOrder: 'Boot001a\\n') instead of Boot001A, the name did not resolve through GetBootEntry"),
 ("C07", "1216554", "stream with an EXTERNAL_MANAGEMENT list holding entries: entries were discarded on decode, 45 bytes re-encoded as 28 with ListSize 45"),
 ("C14", "03e65ce", "SignatureSize < 16 or WIN_CERTIFICATE dwLength < 8 (e.g. 44-byte input): unsigned wrap made ReadSignatureData / ReadWinCertificate allocate ~4 GiB; any declared size was allocated before reading"),
 ("C13", "03e65ce", "image whose certificate table holds a WIN_CERTIFICATE with dwLength < 8: Signatures()/Verify() allocated ~4 GiB from a few-KiB image"),
 ("C08", "c33021e", "stream truncated at a field or entry boundary, bare 16- or 20-byte prefix, ListSize < 28, ListSize not 28 + n*Size: ReadSignatureDatabase returned an empty or shorter database and no error"),
 ("C09", "145c49f", "BytesExists / SigDataExists ignored the signature type: 32 bytes stored as X.509 entry reported present as SHA-256 hash"),
 ("C09", "05c6187", "Exists(list) consulted only the first list with a matching header: entries spread over two lists of equal type and size reported absent"),
 ("C09", "c8bf116", "the same PEM certificate appended twice was stored twice (duplicate check ran on the PEM text, list chosen by PEM length); duplicate of an entry held by another list of the same type was accepted"),
 ("C09", "b8e12ed", "list-level AppendBytes of a certificate of another length onto a non-empty list overwrote Size: ListSize/Size no longer described the entries, malformed stream"),
 ("C10", "ad756e5", "decoded db.auth / KEK.auth: 2020 (2014) bytes consumed, Marshal of the decoded descriptor wrote 4016 (4004) bytes (certificate body kept in Header.Certificate and again as CertType+CertData)"),
 ("C14", "5bfaede", "descriptor shorter than 16 bytes, certificate body shorter than the type GUID, certificate type other than 0x0EF1: log.Fatal in ReadEFIVariableAuthencation2 / ReadWinCertificateUEFIGUID terminated the process"),
 ("C12", "5bfaede", "writing an empty or short unsigned value to PK/KEK/db/dbx on the in-memory store reached the same log.Fatal through the descriptor sniffing in TestFS.WriteVar"),
 ("C14", "479fad0", "load option whose device path ends before the end node, truncated PCI/ACPI/USB/vendor node, expanded ACPI node: log.Fatal in the device path readers terminated the process"),
 ("C14", "10901ad", "hard-drive node with PartitionFormat other than 1 or 2: Format() indexed a two-element table and panicked"),
 ("C18", "00747a2", "GPT hard-drive node: the partition signature was printed as a big-endian GUID (first three fields byte-swapped) instead of the EFI layout; MBR signature printed as a GUID"),
 ("C15", "ce34622", "Close failing after a successful Write in WriteEfivarsWithGuid (FSWrapper and legacy attributes package): error dropped by defer f.Close(), write reported success"),
 ("C12", "e0310b0", "write of a 2-entry database then of a 1-entry database to db on the in-memory store: no truncation, read returned the new value followed by the old tail, Getdb failed to parse"),
 ("C13", "0b385e3", "SignedData whose signed attributes lack the contentType attribute: Verify panicked in Attributes.Marshal (cryptobyte BytesOrPanic: invalid OID)"),
 ("C04", "0b385e3", "valid blob with the contentType attribute removed: Verify panicked instead of returning a negative result or error"),
 ("C13", "5d3600e", "4 KiB image declaring SizeOfHeaders 0xffffffff (or a huge section size): PECOFFBinary.Bytes() preallocated its buffer by the header-declared section sizes, 4 GiB allocated"),
 ("C15", "631263e", "image reader whose 2nd ReadAt (debug/pe's read of the PE signature) returns a short count with io.ErrUnexpectedEOF: the error was ignored and authenticode.Parse reported success"),
 ("C02", "5b301e4", "image with a section header whose PointerToRawData lies beyond the end of the file, signed through the library: the hashed stream silently ended at that section (io.EOF from the part), so Hash/Sign/Verify agreed on the digest of a prefix and Verify reported success although the bytes behind that section are not covered by any digest (found by the thorough tier of C02, class foreign_signer_splice)"),
 ("C14", "2802ee9", "legacy efi.GetBootOrder / efi.GetBootEntry with a BootOrder or Boot#### variable file that is absent or shorter than the four attribute bytes: the error of attributes.ReadEfivars was discarded and the nil buffer used, a nil pointer dereference (found after the legacy package-level getters were added to C14 as an entry point; first seen by a sub-agent of seed round 8 while reading the code)"),
 ("C13", "c0e0cac", "on a 32-bit build (GOARCH=386) authenticode.Parse of an image whose certificate-table directory entry declares a size of 2 GiB or more (e.g. 0xffffff00): int(ddEntry.Size) is negative, the subtraction gives a length beyond the buffer and bytes.Buffer.Truncate panics. First seen by a sub-agent of the second benign round while testing its own change under GOARCH=386; C13 got a GOARCH=386 shard, which found it in the first quick run (replays/C13/regress-c0e0cac.json is a 3.8 KiB reproduction, the case file names the 386 build)"),
 ("C18", "f437fe9", "BootOrder with 64 entries read through the legacy efi.GetBootOrder: the loop bound data.Len() shrank while reading, only the first 32 names were returned"),
 ("C05", "44b99d3", "SignPKCS7 with a content type OID whose encoding is longer than ~13 bytes: signed attributes not in DER SET OF order (contentType after signingTime needed), go.mozilla.org/pkcs7 rejected the signature"),
]

# genuine defects recorded rather than repaired: status "known"
KNOWN = [
 {"status": "known", "property": "C13", "id": "C13-debug-pe-readrelocs",
  "match": {"outcome": "alloc", "alloc_site": "debug/pe.readRelocs"},
  "what": "authenticode.Parse hands the image to debug/pe.NewFile, which allocates NumberOfRelocations x 10 bytes per section header before looking at the file size: a 64 KiB image with 1000 section headers each declaring 6000 relocations makes Parse allocate ~140 MB (allocation site debug/pe.readRelocs). Not small to repair inside go-uefi (needs an own header pre-validation or a replacement of debug/pe); matched by allocation site only.",
  "example": "replays/known/C13-debug-pe-readrelocs.json"},
]

def main():
    out = []
    for prop, commit, what in FIXED:
        out.append({"status": "fixed", "property": prop, "commit": commit, "what": what,
                    "line": "fixed: property=%s %s %s" % (prop, commit, what)})
    for k in KNOWN:
        out.append(k)
    json.dump({"comment": "fixed entries suppress nothing; known entries are matched by call site / structural predicate, never by property id alone",
               "findings": out}, open(os.path.join(VERIF, "known_findings.json"), "w"), indent=1)
    print(len(out), "findings written")

main()
