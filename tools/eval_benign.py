#!/usr/bin/env python3
"""Evaluates the 'benign' changes (changes that keep a property true) against the checks: every check that is run
has to stay silent. usage: eval_benign.py [--lanes N] [--checks-all] [names...]
For each /verif/benign/<name>/ (patch.diff, meta.json): apply in a lane checkout, run the existing suite, run the
property's quick check (with --checks-all: every quick check), restore. Writes result.json next to the patch."""
import json, os, subprocess, sys, glob, threading
V = "/verif"
ENV = dict(os.environ, GOFLAGS="-mod=mod", GOPROXY="off", GOSUMDB="off", GOTOOLCHAIN="local")
SUITE = "go build ./... && go test -vet=off -count=1 ./authenticode/ ./pkcs7/ ./efi/... ./efivarfs/..."
args = sys.argv[1:]
lanes = 4
if "--lanes" in args:
    i = args.index("--lanes"); lanes = int(args[i + 1]); del args[i:i + 2]
allchecks = "--checks-all" in args
if allchecks:
    args.remove("--checks-all")
names = args or sorted(os.path.basename(d.rstrip("/")) for d in glob.glob(V + "/benign/*/"))
ALL = ["C%02d" % i for i in range(1, 20)]
lock = threading.Lock()

def sh(cmd, cwd, env, timeout=3600):
    p = subprocess.run(cmd, shell=True, cwd=cwd, env=env, stdout=subprocess.PIPE, stderr=subprocess.STDOUT, text=True, timeout=timeout)
    return p.returncode, p.stdout

def work(lane):
    repo = "/tmp/lane_%d/repo" % lane
    env = dict(ENV, VERIF_LANE=str(lane))
    if not os.path.isdir(repo):
        os.makedirs("/tmp/lane_%d" % lane, exist_ok=True)
        subprocess.run(["git", "-C", "/repo", "worktree", "add", "-q", "--detach", repo, "HEAD"], check=True)
    head = subprocess.run(["git", "-C", "/repo", "rev-parse", "HEAD"], stdout=subprocess.PIPE, text=True).stdout.strip()
    sh("git checkout -q -- . && git clean -qfd && git checkout -q --detach %s" % head, repo, env)
    while True:
        with lock:
            if not names:
                return
            n = names.pop(0)
        d = "%s/benign/%s" % (V, n)
        meta = json.load(open(d + "/meta.json"))
        res = {"name": n, "property": meta["property"]}
        try:
            rc, out = sh("git apply %s/patch.diff" % d, repo, env)
            if rc != 0:
                # written against an earlier HEAD (a later fix: commit touched a neighbouring line): three-way merge
                sh("git reset -q --hard && git clean -qfd", repo, env)
                rc, out = sh("git apply --3way %s/patch.diff && git reset -q" % d, repo, env)
                res["applied_with_3way"] = rc == 0
                if rc != 0:
                    sh("git reset -q --hard && git clean -qfd", repo, env)
            if rc != 0:
                res["apply"] = "FAILED: " + out[-300:]
            else:
                rc, out = sh(SUITE, repo, env)
                res["existing_suite_with_change"] = "pass" if rc == 0 else "FAIL: " + out[-600:]
                res["checks"] = {}
                for c in (ALL if allchecks else [meta["property"]]):
                    rc, out = sh("./check %s --tier quick" % c, V, env, timeout=7200)
                    lines = [l for l in out.splitlines() if l.startswith(("VIOLATION", "OK ", "INCONCLUSIVE", "KNOWN", "  "))]
                    res["checks"][c] = {"rc": rc, "out": [l[:1500] for l in lines[:3]]}
        finally:
            sh("git reset -q --hard && git clean -qfd", repo, env)
        json.dump(res, open(d + "/result.json", "w"), indent=1)
        verdict = {k: ("silent" if v["rc"] == 0 else ("ALARM" if v["rc"] == 1 else "rc=%s" % v["rc"])) for k, v in res.get("checks", {}).items()}
        print(n, res.get("apply", ""), res.get("existing_suite_with_change", ""), verdict, flush=True)

ts = [threading.Thread(target=work, args=(k + 1,)) for k in range(lanes)]
[t.start() for t in ts]
[t.join() for t in ts]
