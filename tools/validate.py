#!/usr/bin/env python3
"""Validates MANIFEST.json and evidence/*.json against the schemas (needs jsonschema: python3-vt)."""
import json, glob, sys
import jsonschema
ok = True
try:
    jsonschema.validate(json.load(open('/verif/MANIFEST.json')), json.load(open('/root/.vp/MANIFEST.schema.json')))
    print("MANIFEST.json valid")
except Exception as e:
    ok = False; print("MANIFEST.json INVALID:", e)
es = json.load(open('/root/.vp/EVIDENCE.schema.json'))
for f in sorted(glob.glob('/verif/evidence/*.json')):
    try:
        jsonschema.validate(json.load(open(f)), es)
        print(f, "valid")
    except Exception as e:
        ok = False; print(f, "INVALID:", str(e)[:300])
sys.exit(0 if ok else 1)
