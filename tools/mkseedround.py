#!/usr/bin/env python3
"""Prepares a round of independently written changes: one scratch worktree of /repo per property under
/tmp/seed<N>/CNN and a prompt file /tmp/seed<N>/CNN.prompt.txt (property text + summaries of the changes that
already exist for it). Usage: mkseedround.py <N> "<extra instructions for this round>"
The sub-agents get the prompt text only; nothing from /verif."""
import json, os, subprocess, sys, glob
N = sys.argv[1]
extra_round = sys.argv[2] if len(sys.argv) > 2 else ""
root = "/tmp/seed%s" % N
os.makedirs(root, exist_ok=True)
tmpl = open("/verif/tools/seed_prompt.tmpl").read()
for line in open("/verif/properties.jsonl"):
    p = json.loads(line)
    pid = p["id"]
    wt = "%s/%s" % (root, pid)
    subprocess.run(["git", "-C", "/repo", "worktree", "remove", "--force", wt], stderr=subprocess.DEVNULL)
    subprocess.run(["git", "-C", "/repo", "worktree", "add", "-q", "--detach", wt, "HEAD"], check=True)
    prop = "%s - %s\n\nStatement: %s\n\nQuantified over: %s\n" % (pid, p["title"], p["statement"], p["quantifier"]["text"])
    done = []
    for d in sorted(glob.glob("/verif/seeded/%s-*/meta.json" % pid) + glob.glob("/verif/seeded_retired/%s-*/meta.json" % pid)):
        try:
            done.append("- " + json.load(open(d))["summary"].replace("\n", " ")[:300])
        except Exception:
            pass
    extra = ""
    if done:
        extra = "\n\nIMPORTANT: %d changes were already produced for this property in earlier rounds; yours must be DIFFERENT in code site and mechanism from these:\n" % len(done) + "\n".join(done) + "\n\n" + extra_round + "\n"
    txt = tmpl.replace("/tmp/seed/__ID__", root + "/__ID__").replace("__ID__", pid).replace("__PROPERTY__", prop + extra)
    txt = txt.replace("under /tmp/seed.", "under /tmp/seed*.")
    open("%s/%s.prompt.txt" % (root, pid), "w").write(txt)
print("prepared", root)
