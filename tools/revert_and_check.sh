#!/bin/sh
# usage: revert_and_check.sh <commit-ish in /repo> <property id> [tier]
# Temporarily reverts one fix commit in /repo's working tree, runs the check
# (expected to report a violation), and restores the tree. Used for sensitivity tests.
set -u
sha="$1"; pid="$2"; tier="${3:-quick}"
cd /repo || exit 2
if [ -n "$(git status --porcelain)" ]; then echo "/repo not clean"; exit 2; fi
git revert --no-commit "$sha" >/dev/null 2>&1 || { echo "revert failed"; git revert --abort 2>/dev/null; git reset -q --hard; exit 2; }
git reset -q          # unstage, keep working tree changes
cd /verif && ./check "$pid" --tier "$tier"; rc=$?
cd /repo && git checkout -q -- . && git clean -qfd
echo "rc=$rc (tree restored: $(git status --porcelain | wc -l) dirty files)"
exit $rc
