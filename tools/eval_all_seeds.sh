#!/bin/sh
# evaluates every seeded change (sequentially: they share /repo's working tree)
cd /verif
for d in seeded/*/; do
  n=$(basename $d)
  extra=""
  case "$n" in
    C11-A) extra="--checks C11,C15" ;;
    C02-B) extra="--checks C02,C01" ;;
    C03-B) extra="--checks C03,C02" ;;
    C06-B) extra="--checks C06,C05" ;;
    C15-B) extra="--checks C15,C11" ;;
    C17-B) extra="--checks C17,C19" ;;
  esac
  if [ -n "${ONLY:-}" ] && ! echo "$ONLY" | grep -qw "$n"; then continue; fi
  python3 tools/eval_seed.py $d $extra > $d/result.json 2>&1
  python3 - "$d/result.json" "$n" <<'PY'
import json,sys
try:
    r=json.load(open(sys.argv[1]))
    cs={k:('VIOLATION' if v['rc']==1 else ('OK' if v['rc']==0 else 'rc=%s'%v['rc'])) for k,v in r.get('checks',{}).items()}
    print(sys.argv[2], '| suite:', r.get('existing_suite_with_change','?')[:12], '| demo clean:', r.get('demo_on_unchanged_tree','?')[:10], '| demo changed:', r.get('demo_with_change','?')[:8], '|', cs, '| clean:', r.get('repo_clean_after'))
except Exception as e:
    print(sys.argv[2], 'ERROR', e, open(sys.argv[1]).read()[-300:])
PY
done
