#!/bin/sh
# usage: mutate_and_check.sh <file under /repo> <python-replace old> <new> <property id>...
# Applies one textual mutation to /repo's working tree, runs the quick checks, restores the tree.
set -u
f="$1"; old="$2"; new="$3"; shift 3
cd /repo || exit 2
if [ -n "$(git status --porcelain)" ]; then echo "/repo not clean"; exit 2; fi
python3 - "$f" "$old" "$new" <<'PY' || { git checkout -q -- .; exit 2; }
import sys
p, old, new = sys.argv[1:4]
s = open(p).read()
if old not in s:
    print("pattern not found"); sys.exit(1)
open(p, 'w').write(s.replace(old, new, 1))
PY
GOFLAGS=-mod=mod GOPROXY=off GOSUMDB=off GOTOOLCHAIN=local go build ./... || { echo "mutant does not build"; git checkout -q -- .; exit 2; }
for pid in "$@"; do (cd /verif && ./check "$pid" --tier quick | grep -E "^(VIOLATION|OK|INCONCLUSIVE|KNOWN)" | head -3); done
git checkout -q -- . && git clean -qfd
echo "tree restored: $(git status --porcelain | wc -l) dirty files"
