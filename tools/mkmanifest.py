#!/usr/bin/env python3
"""Regenerates /verif/MANIFEST.json from checkcfg.py (single source of truth for the checks)."""
import json, os, sys
VERIF = os.path.dirname(os.path.dirname(os.path.abspath(__file__)))
sys.path.insert(0, VERIF)
from checkcfg import PROPS, NOT_APPLICABLE, HOOK_COMMITS

BASELINE_OFF = ("cd /repo && GOFLAGS=-mod=mod GOPROXY=off GOSUMDB=off GOTOOLCHAIN=local "
                "go test -vet=off -count=1 -timeout 25m ./...")

def main():
    checks = []
    for pid in sorted(PROPS):
        c = PROPS[pid]
        checks.append({
            "property_id": pid,
            "quick_cmd": "./check %s --tier quick" % pid,
            "thorough_cmd": "./check %s --tier thorough" % pid,
            "evidence_file": "/verif/evidence/%s.json" % pid,
            "replay_cmd_template": "./check %s --replay {path}" % pid,
            "engine": "check",
            "level_claimed": {"category": c.get("level", "exploration"), "text": c["level_text"], "design_ref": "DESIGN.md section 3, " + pid},
            "level_note": c["level_note"],
            "technique": c["technique"],
        })
    m = {
        "version": 1,
        "setup_cmd": "./check --setup",
        "hooks": {
            "guard": "verif",
            "enable": "harness test binaries are built with `go test -tags verif` against /repo (replace directive); no hook code exists in /repo",
            "baseline_off_cmd": BASELINE_OFF,
            "source_commits": HOOK_COMMITS,
            "add_only": True,
        },
        "engines": [{
            "name": "check",
            "path": "/verif/check",
            "serves_properties": sorted(PROPS),
            "kind_free_text": "python3 driver around Go test binaries: pgregory.net/rapid property-based tests (stateful where the property is over histories), exhaustive enumeration of small finite sub-spaces, sandboxed worker processes for termination/allocation properties, go native fuzzing in the thorough tier",
        }],
        "checks": checks,
        "not_applicable": NOT_APPLICABLE,
        "notes": "All properties are decided by generated-input search against an explicit oracle (see DESIGN.md). known_findings.json lists genuine defects that were repaired (status fixed) or are excused by call site (status known).",
    }
    json.dump(m, open(os.path.join(VERIF, "MANIFEST.json"), "w"), indent=1)
    print("MANIFEST.json:", len(checks), "checks,", len(NOT_APPLICABLE), "not applicable")

main()
